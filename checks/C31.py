"""C31 (unit part) — address-to-space resolution is total and exact."""
from vlib import unit
from vlib.engine import Case
from checks import layoutlib

W = 1 << 64
CH = 1 << 22
LSE = 41
SP = 1 << LSE
HEAP_START, HEAP_END = 0x200_0000_0000, 0x2200_0000_0000


def addrs(rng):
    k = rng.randrange(0, 64)
    i = rng.randrange(0, 20)
    return rng.choice([0, 8, W - 8, (W - 1) & ~7, (1 << k), (1 << k) - 8, (1 << k) + 8,
                       i * SP, i * SP - 8, i * SP + 8, i * SP + rng.randrange(0, SP),
                       HEAP_START - 8, HEAP_START, HEAP_END - 8, HEAP_END, HEAP_END + 8,
                       16 * SP, 16 * SP + rng.randrange(0, SP) , 17 * SP - 8,
                       0xc00_0000_0000, 0xc00_0000_0000 + rng.randrange(0, 1 << 40),     # side metadata range
                       rng.getrandbits(64), rng.getrandbits(47), rng.getrandbits(rng.randrange(1, 64))]) % W


class Spec(unit.UnitSpec):
    pid = "C31"
    modules = ["MmtkModel.Props.C31", "MmtkModel.Props.C31Sft"]
    theorems = ["Mmtk.Resolve.sft_total", "Mmtk.Resolve.sft_table_size", "Mmtk.Resolve.sft_exact",
                "Mmtk.Resolve.descriptor_total_fails", "Mmtk.Resolve.descriptor_oob_iff",
                "Mmtk.Resolve.descriptor_total_partial", "Mmtk.Resolve.descriptor_total_fixed",
                "Mmtk.Resolve.descriptor_fixed_exact", "Mmtk.Resolve.map32_descriptor_exact",
                # discontiguous layouts (Props/C31Sft.lean): the chunk-granular SFT map agrees with Map32's descriptor table in
                # every reachable state of grow_space / release / release_all histories
                "Mmtk.Map32.freeNoLock_sft", "Mmtk.Map32.sftEq_free", "Mmtk.Map32.sftEq_freeAll", "Mmtk.Map32.allocate_sft",
                "Mmtk.Map32.sftUpdate_ok", "Mmtk.Map32.sftEq_growSpace", "Mmtk.Map32.sftEq_growSpace_inv",
                "Mmtk.Map32.alloc_ne_zero_of_inv", "Mmtk.Map32.sftEq_release", "Mmtk.Map32.sftEq_releaseAll",
                "Mmtk.Map32.sft_matches_descriptor", "Mmtk.Map32.sft_matches_descriptor_debug",
                "Mmtk.Map32.sft_matches_descriptor_init", "Mmtk.Map32.sft_matches_descriptor_init_debug",
                "Mmtk.Map32.sft_exact_of_inv", "Mmtk.Map32.sftGet_exact_of_inv"]
    component = "resolve"
    relation = "Mmtk.Resolve.* ≙ policy::sft_map::SFTSpaceMap index arithmetic, Map64/Map32::get_descriptor_for_address (via verif::layout::resolve)"
    assumptions = ["64-bit unit part: private SFTSpaceMap / Map64 instances without live spaces (every SFT entry is the empty SFT); the model "
                   "takes explicit descriptor tables so it can be fed the extents of live spaces",
                   "discontiguous layouts (cfg layout 32 / compressed): the process-global SFTSparseChunkMap is written by stand-in "
                   "spaces `s<descriptor>` exactly where Space::grow_space writes it (after a successful grow_discontiguous_space) and "
                   "cleared by the real Map32::free_contiguous_chunks; sft_matches_descriptor needs no protocol hypothesis in debug "
                   "builds; in release builds it assumes the region map never hands out chunk 0 (ZeroSafe; discharged per step by "
                   "alloc_ne_zero_of_inv under C29's invariant). Dense chunk map (vm_space / malloc builds) not covered",
                   "whole-GC part: programs under `cfg layout compressed` (real Map32 + SFTSparseChunkMap of a live plan); expected owner "
                   "of a chunk = the space on whose region list (walked from its page resource's head) the chunk lies; the Lean model "
                   "is fed the observed region lists and must answer every probe like the live instance",
                   "default 64-bit layout for SFTSpaceMap / Map64 (space extent 2^41, heap 2^41..17·2^41), cfg layout 32 for Map32",
                   "descriptor_total is FALSE for Map64 (known finding map64:descriptor-index-oob); proved: exact failure set, "
                   "partial totality, and totality + conservativity of the bounds-checked repair"]
    rule = ("addresses: 0, 8, 2^k±8, every space boundary i·2^41±8 (i ≤ 19), heap edges, the 17th/18th slot, side-metadata "
            "range, usize::MAX&~7, random 64/47-bit; ops: SFT has_entry/index/get_checked, private Map64 insert + "
            "get_descriptor_for_address under catch_unwind, the global VM_MAP, Map32 under cfg layout 32. non-trivial = address "
            "has an SFT entry or a non-zero descriptor or the lookup panics; distinct = distinct (history, outputs). layout 32 also: "
            "component `dpr` histories (grow_space of 1..33 chunks by 1..4 spaces, release head/middle/tail, release_all) with the "
            "global sparse SFT map dumped next to the descriptor table after every op + `sft` lookups at range / table edges. "
            "whole-GC: Los objects of 1..4 chunks allocated, dropped, collected (GenImmix, SemiSpace, MarkSweep, Immix; thorough + "
            "GenCopy, StickyImmix, MarkCompact, PageProtect); after every collection sftname / desc / inspaces / ismapped at start, "
            "middle, end of the 40 lowest heap chunks + 7 addresses outside the heap / table")

    def __init__(self, which="64"):
        self.which = which
        self.variant = f"layout{which}"

    def pre(self, debug):
        return [f"cfg debug {1 if debug else 0}", f"cfg layout {self.which}"]

    def gen(self, rng, tier, debug):
        n = (400 if tier == "quick" else 20000) // (1 if self.which == "64" else 4)
        cases = []
        for i in range(n):
            ops = ["resolve new"]
            if self.which == "64":
                for _ in range(rng.randrange(0, 4)):
                    sp = rng.randrange(0, 19)
                    st = sp * SP if rng.random() < 0.85 else sp * SP + rng.choice([8, CH, SP // 2])
                    ext = rng.choice([2 * CH, SP, 10 * CH, CH, SP + CH]) if rng.random() < 0.9 else rng.getrandbits(44)
                    ops.append(f"resolve insert {st:#x} {ext:#x} {rng.choice([1, 3, 5, 4 * sp + 1, rng.getrandbits(20)])}")
            for _ in range(rng.randrange(3, 12)):
                a = addrs(rng)
                ops.append(rng.choice([f"resolve sft {a:#x}", f"resolve desc {a:#x}", f"resolve desc {a:#x}", f"resolve gdesc {a:#x}"]))
            if rng.random() < 0.1:
                ops.append("resolve bounds")
            cases.append(Case(ops))
        if self.which == "32":
            # chunk-granular SFT map (SFTSparseChunkMap) written by grow_space / cleared by Map32's free, through the
            # page-resource layer over a private Map32 (component `dpr`)
            cases += layoutlib.dpr_gen(rng, 250 if tier == "quick" else 10000, debug)
        return cases

    def corpus(self, debug):
        if self.which != "64":
            return layoutlib.DPR_CORPUS + [Case(["resolve new", "resolve desc 0", "resolve desc 0x80000000", "resolve desc 0xfffffffffffffff8",
                          "resolve desc 0x7fffffffffff", "resolve desc 0x800000000000", "resolve gdesc 0xd0000000"])]
        return [Case(["resolve new", "resolve bounds", "resolve sft 0", "resolve sft 0x20000000000", "resolve sft 0x1ffffffffff8",
                      "resolve sft 0x200000000000", "resolve sft 0xfffffffffffffff8"]),
                Case(["resolve new", "resolve desc 0x1ffffffffff8", "resolve desc 0x200000000000", "resolve desc 0x220000000000",
                      "resolve desc 0x220000000008", "resolve gdesc 0x200000000000"]),
                Case(["resolve new", "resolve insert 0x20000000000 0x800000 9", "resolve desc 0x20000000008",
                      "resolve desc 0x3fffffffff8", "resolve desc 0x40000000000", "resolve insert 0x200000000000 0x800000 9"])]

    def oracle(self, case, impl_out):
        """C31's statement on the implementation's outputs: never panics; SFT entry ⇔ inside a space extent; descriptor
        of the space whose extent contains the address."""
        if case.ops and case.ops[0].startswith("dpr "):
            return layoutlib.dpr_oracle(case, impl_out, want=("sft", "map32", "dpr"))
        bad = []
        inserted = {}          # space index -> raw
        for op, out in zip(case.ops, impl_out):
            t = op.split()
            if t[1] == "new":
                inserted = {}
            elif t[1] == "insert" and out == "ok":
                inserted[int(t[2], 0) >> LSE] = int(t[4], 0)
            elif t[1] == "sft" and self.which == "64":
                a = int(t[2], 0)
                f = out.split()
                if len(f) != 3:
                    bad.append(("sft:lookup-panics", f"SFT lookup of {a:#x} did not return: {out}"))
                    continue
                in_spaces = SP <= a < 16 * SP
                if (f[0] == "true") != in_spaces or int(f[1]) >= 32 or (in_spaces and int(f[1]) != a >> LSE):
                    bad.append(("sft:index", f"SFT lookup of {a:#x}: has_entry={f[0]} index={f[1]}"))
                if f[2] != "empty":
                    bad.append(("sft:not-empty", f"SFT lookup of {a:#x} in a process without spaces returned {f[2]}"))
            elif t[1] in ("desc", "gdesc"):
                a = int(t[2], 0)
                if out.startswith("panic") or out.startswith("crash"):
                    if self.which == "64" and 16 * SP <= a <= HEAP_END:
                        bad.append(("map64:descriptor-index-oob",
                                    f"Map64::get_descriptor_for_address({a:#x}) panics ({out}): space_index = {a >> LSE} ≥ "
                                    f"descriptor_map.len() = 16 for addresses in [0x200000000000, heap_end = 0x220000000000]"))
                    else:
                        bad.append(("vmmap:descriptor-panics", f"get_descriptor_for_address({a:#x}) panics: {out}"))
                    continue
                if self.which == "64":
                    exp = inserted.get(a >> LSE, 0) if (t[1] == "desc" and a <= HEAP_END) else 0
                else:
                    exp = 0
                if out != str(exp):
                    bad.append(("vmmap:descriptor-wrong", f"get_descriptor_for_address({a:#x}) = {out}, expected {exp}"))
        seen, res = set(), []
        for k, w in bad:
            if k not in seen:
                seen.add(k); res.append((k, w))
        return res

    def nontrivial(self, case, out):
        if case.ops and case.ops[0].startswith("dpr "):
            return layoutlib.dpr_nontrivial(case, out)
        return any(o.startswith("true") or o.startswith("panic") or (o.isdigit() and o != "0") for o in out)

    def summarize(self, cases, outs):
        h, k, pr = {}, {}, {}
        layoutlib.dpr_summarize(cases, outs, h, pr)
        for c, o in zip(cases, outs):
            for op, out in zip(c.ops, o):
                t = op.split()
                if t[0] == "dpr":
                    continue
                h[f"{self.variant}:{t[1]}"] = h.get(f"{self.variant}:{t[1]}", 0) + 1
                if t[1] in ("desc", "gdesc", "sft"):
                    a = int(t[2], 0)
                    b = ("below-heap" if a < SP else "spaces1-15" if a < 16 * SP else "slot16-17" if a <= HEAP_END else "above-heap")
                    k[b] = k.get(b, 0) + 1
        return {"op": h, "address_class": k, "page_resource_sft": pr}


META = {
    "text": 'Discontiguous layouts: the Map32 history model carries the chunk-granular SFT map (written by grow_space, cleared per chunk by free_contiguous_chunks_no_lock); sft_matches_descriptor: SFT entry = VM-map descriptor for every chunk in every reachable state, hence (sft_exact_of_inv) a freed chunk resolves to no space and an allocated chunk to its owner; decide-witness that clearing only the first chunk breaks it. Exact differential on the real SFTSparseChunkMap + private Map32 through CommonPageResources (component dpr), and real GC runs under the compressed-pointer layout probing every chunk ever used (sftname / desc / inspaces / ismapped) against the Lean sparse-map / Map32 lookup model and a Python oracle. Unit part. Lean theorems over all addresses: SFTSpaceMap index < 32 (sft_total), get_checked returns entry i exactly inside the extent of space i ∈ 1..15 and the empty SFT elsewhere (sft_exact); Map64::get_descriptor_for_address is NOT total — exact failure set [16·2^41, heap_end] (descriptor_oob_iff), decide-witnesses, descriptor_total_partial outside it, and the bounds-checked repair proved total, conservative and exact; Map32 lookup total. Exact differential on private SFTSpaceMap / Map64 / Map32 and the global VM_MAP at boundary addresses.',
    "note": 'Known finding map64:descriptor-index-oob (genuine defect, not patched). Dense chunk map (vm_space / malloc_mark_sweep builds) is not covered. Trusted: Lean kernel + standard axioms, hand-written model, sampling differential, add-only hooks.',
    "technique": 'Lean 4 proof (mask/shift arithmetic, decide witnesses) + exact differential hx_unit vs compiled Lean model',
}


def main(argv=None):
    return layoutlib.multi_main([Spec("64"), Spec("32")], argv,
                                extra=layoutlib.gc_part("C31", ("sft:", "vmmap:", "mmap:", "gc:", "correspondence:")))
