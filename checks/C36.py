"""C36 — the large-object treadmill accounts for every object exactly once."""
import re
from vlib import unit
from vlib.engine import Case

SETS = re.compile(r"^(.*) \| F=\[([\d,]*)\] T=\[([\d,]*)\] C=\[([\d,]*)\] A=\[([\d,]*)\]$")


def ids(s):
    return [int(x) for x in s.split(",")] if s else []


def parse(line):
    """-> (result, F, T, C, A) or None (panic / garbage)."""
    m = SETS.match(line)
    if not m:
        return None
    return (m.group(1), ids(m.group(2)), ids(m.group(3)), ids(m.group(4)), ids(m.group(5)))


class Gen:
    """Protocol-respecting LOS histories (python shadow only decides which op is legal next)."""

    def __init__(self, rng, big):
        self.rng, self.ops = rng, ["tread new"]
        self.F, self.T, self.C, self.A = set(), set(), set(), set()
        self.phase = "mut"
        self.pool = (lambda: rng.randrange(0, 24)) if not big else (
            lambda: rng.choice([rng.randrange(0, 24), rng.randrange(0, 1 << 40), (1 << 59) + rng.randrange(0, 8)]))

    def fresh(self):
        for _ in range(50):
            o = self.pool()
            if o not in self.F | self.T | self.C | self.A:
                return o
        return None

    def add(self, nursery):
        o = self.fresh()
        if o is None:
            return
        (self.A if nursery else self.T).add(o)
        self.ops.append(f"tread add {o} {1 if nursery else 0}")

    def gc(self, full, pmark):
        rng = self.rng
        self.A, self.C = self.C, self.A
        if full:
            self.F, self.T = self.T, self.F
        self.ops.append(f"tread flip {1 if full else 0}")
        work = [(o, 1) for o in self.C] + [(o, 0) for o in self.F]
        rng.shuffle(work)
        for o, fl in work:
            if rng.random() < pmark:
                (self.C if fl else self.F).discard(o)
                self.T.add(o)
                self.ops.append(f"tread copy {o} {fl}")
            if rng.random() < 0.08:
                self.add(False)          # allocation as live during (concurrent) marking
            if rng.random() < 0.04:
                self.ops.append("tread empties")
        self.C = set()
        self.ops.append("tread collect_nursery")
        if full:
            self.F = set()
            self.ops.append("tread collect_mature")

    def history(self, n):
        rng = self.rng
        pmark = rng.choice([0.0, 0.3, 0.5, 0.8, 1.0])
        while len(self.ops) < n:
            r = rng.random()
            if r < 0.70:
                self.add(rng.random() < 0.88)
            elif r < 0.75:
                self.ops.append("tread empties")
            else:
                self.gc(rng.random() < 0.4, pmark)
        return self.ops


def malformed(rng, n):
    """Mostly-valid history with protocol violations spliced in (expected outcome: whatever the
    real code does — in debug builds `copy` of an object not in its source set asserts, which
    poisons the mutex; in release builds it silently inserts)."""
    g = Gen(rng, False)
    ops = g.history(max(4, n))
    k = rng.randrange(1, 5)
    for _ in range(k):
        i = rng.randrange(1, len(ops) + 1)
        o = rng.randrange(0, 26)
        bad = rng.choice([f"tread copy {o} 1", f"tread copy {o} 0", f"tread add {o} 1", f"tread add {o} 0",
                          "tread collect_mature", "tread collect_nursery", "tread flip 1", "tread flip 0",
                          "tread empties"])
        ops.insert(i, bad)
    if rng.random() < 0.1:
        ops = ops[1:]          # no `new` first
    return ops


class Spec(unit.UnitSpec):
    pid = "C36"
    modules = ["MmtkModel.Props.C36"]
    theorems = ["Mmtk.Treadmill.one_set", "Mmtk.Treadmill.one_set_structured", "Mmtk.Treadmill.sweep_exact",
                "Mmtk.Treadmill.nursery_gc_keeps_mature", "Mmtk.Treadmill.protocol_never_panics",
                "Mmtk.Treadmill.inv_step", "Mmtk.Treadmill.marking_run"]
    component = "tread"
    relation = "Mmtk.Treadmill.{addToTreadmill,flip,copy,collectNursery,collectMature} ≙ util::treadmill::TreadMill"
    assumptions = [
        "HashSet<ObjectReference> is modelled as a duplicate-free list (insert/remove/take/swap/contains/is_empty)",
        "all TreadMill operations run under its single mutex, so concurrent GC workers are a sequence of operations",
        "LOS protocol (Mmtk.Treadmill.allowed): add only fresh objects, young only in mutator phase; flip in mutator "
        "phase; copy(o, flag) only during marking with o in the set the flag names; collect_nursery after marking; "
        "collect_mature only in a full GC after collect_nursery — read off largeobjectspace.rs "
        "(initialize_object_metadata / prepare / trace_object / release); LOS itself is exercised by C01/C07",
        "objects are opaque: fake ObjectReferences at never-mapped addresses (a dereference would crash hx_unit)"]
    rule = ("seeded protocol-respecting LOS histories (20..160 ops: young/as-live allocation, nursery and full GCs with "
            "mark probability 0/.3/.5/.8/1, as-live allocation during marking, address reuse after sweeping, ids up to "
            "2^59) plus a malformed stream (copy of absent object / wrong flag, double copy, re-add, young allocation "
            "during GC, collect_mature in a nursery GC, flip during GC, no `new`); every op prints the four sorted "
            "sets; non-trivial = a GC that both marks and sweeps something; distinct = distinct (history, outputs)")

    def gen(self, rng, tier, debug):
        n = 2000 if tier == "quick" else 40000
        cases = []
        for i in range(n):
            ln = rng.choice([3, 8, 20, 40, 80, 160])
            if rng.random() < 0.75:
                cases.append(Case(Gen(rng, rng.random() < 0.2).history(ln), tag="valid"))
            else:
                cases.append(Case(malformed(rng, ln), tag="malformed"))
        return cases

    def corpus(self, debug):
        return [
            Case(["tread new", "tread add 1 1", "tread add 2 1", "tread add 3 0", "tread flip 0", "tread copy 1 1",
                  "tread collect_nursery", "tread add 4 1", "tread flip 1", "tread copy 4 1", "tread add 9 0",
                  "tread copy 1 0", "tread collect_nursery", "tread collect_mature", "tread empties"], tag="valid"),
            Case(["tread new", "tread flip 1", "tread collect_nursery", "tread collect_mature", "tread empties"], tag="valid"),
            Case(["tread new", "tread add 5 1", "tread flip 0", "tread copy 5 0", "tread empties", "tread add 1 1"],
                 tag="malformed"),
            Case(["tread new", "tread add 5 1", "tread add 5 0", "tread flip 1", "tread copy 5 1", "tread copy 5 1",
                  "tread collect_nursery", "tread collect_mature"], tag="malformed"),
            Case(["tread add 1 1", "tread bogus", "tread new", "tread bogus"], tag="malformed"),
        ]

    # ---- the property's own statement, evaluated on what the implementation printed -------------
    def oracle(self, case, impl_out):
        bad = []
        phase, alive, copied = None, set(), set()
        A0, T0, full = set(), set(), False
        prev = None                      # (F, T, C, A) printed by the previous op
        for op, out in zip(case.ops, impl_out):
            t = op.split()
            if t[:2] == ["tread", "new"]:
                phase, alive, copied = "mut", set(), set()
                p = parse(out)
                if p is None or any(p[1:]):
                    bad.append(("tread:new", f"new treadmill is not empty: {out}"))
                    return bad
                prev = p[1:]
                continue
            if phase is None or len(t) < 2:
                return bad               # no treadmill / not an op: nothing is claimed
            F, T, C, A = (set(x) for x in prev)
            kind = t[1]
            # protocol precondition (Mmtk.Treadmill.allowed), decided on the implementation's own sets
            if kind == "add" and len(t) == 4:
                o, n = int(t[2]), t[3] != "0"
                ok = o not in (F | T | C | A) and (not n or phase == "mut")
            elif kind == "flip" and len(t) == 3:
                ok = phase == "mut"
            elif kind == "copy" and len(t) == 4:
                o, n = int(t[2]), t[3] != "0"
                ok = phase == "mark" and (o in C if n else o in F)
            elif kind == "collect_nursery":
                ok = phase == "mark"
            elif kind == "collect_mature":
                ok = phase == "swept"
            elif kind == "empties":
                ok = True
            else:
                return bad
            if not ok:
                return bad               # history left the protocol: nothing is claimed afterwards
            p = parse(out)
            if p is None:
                bad.append(("tread:panic", f"`{op}` respects the LOS protocol but the treadmill answered {out!r}"))
                return bad
            res, nF, nT, nC, nA = p
            if kind == "add":
                alive.add(o)
            elif kind == "flip":
                full = t[2] != "0"
                phase, copied, A0, T0 = "mark", set(), set(A), set(T)
            elif kind == "copy":
                copied.add(o)
            elif kind == "empties":
                want = " ".join("true" if not x else "false" for x in (nF, nT, nC, nA))
                if res != want:
                    bad.append(("tread:empties", f"is_*_empty says {res}, sets are {out}"))
            elif kind == "collect_nursery":
                got = ids(res.strip("[]"))
                if len(set(got)) != len(got) or set(got) != A0 - copied:
                    bad.append(("tread:sweep-nursery", f"collect_nursery returned {sorted(got)}, the unmarked young "
                                                       f"objects are {sorted(A0 - copied)}"))
                alive -= set(got)
                phase = "swept" if full else "mut"
                if not full:
                    if not T0 <= set(nT) or set(got) & T0 or nF:
                        bad.append(("tread:nursery-keeps-mature", f"nursery GC lost mature objects: before {sorted(T0)}, "
                                                                  f"after T={nT} F={nF} swept={got}"))
                    if not copied <= set(nT):
                        bad.append(("tread:marked-kept", f"marked objects {sorted(copied - set(nT))} not in to_space"))
            elif kind == "collect_mature":
                got = ids(res.strip("[]"))
                if len(set(got)) != len(got) or set(got) != T0 - copied:
                    bad.append(("tread:sweep-mature", f"collect_mature returned {sorted(got)}, the unmarked old "
                                                      f"objects are {sorted(T0 - copied)}"))
                alive -= set(got)
                phase = "mut"
                if not copied <= set(nT):
                    bad.append(("tread:marked-kept", f"marked objects {sorted(copied - set(nT))} not in to_space"))
            # one_set: every alive object in exactly one set, nothing else anywhere
            allo = nF + nT + nC + nA
            if len(set(allo)) != len(allo) or set(allo) != alive:
                bad.append(("tread:one-set", f"after `{op}` the sets {out.split('|')[-1].strip()} do not hold each of "
                                             f"the alive objects {sorted(alive)} exactly once"))
            # phase shape asserted by LargeObjectSpace::release
            if (phase == "mut" and (nC or nF)) or (phase == "mark" and nA) or (phase == "swept" and (nC or nA)):
                bad.append(("tread:phase-shape", f"after `{op}` in phase {phase}: {out}"))
            if bad:
                return bad
            prev = (nF, nT, nC, nA)
        return bad

    def nontrivial(self, case, out):
        marks = sum(1 for o in case.ops if o.startswith("tread copy"))
        swept = any(l.startswith("[") and not l.startswith("[]") for l in out)
        return marks > 0 and swept

    def summarize(self, cases, outs):
        h, tags, lens, gcs, panics = {}, {}, {}, {"nursery": 0, "full": 0}, 0
        for c, o in zip(cases, outs):
            tags[c.tag or "?"] = tags.get(c.tag or "?", 0) + 1
            b = "1-9" if len(c.ops) < 10 else "10-49" if len(c.ops) < 50 else "50-99" if len(c.ops) < 100 else "100+"
            lens[b] = lens.get(b, 0) + 1
            for op in c.ops:
                k = " ".join(op.split()[1:2])
                h[k] = h.get(k, 0) + 1
                if op == "tread flip 0":
                    gcs["nursery"] += 1
                if op == "tread flip 1":
                    gcs["full"] += 1
            panics += sum(1 for l in o if l.startswith("panic"))
        return {"ops": h, "case_kind": tags, "history_length": lens, "gcs": gcs, "panic_lines": {"n": panics}}


META = {
    "text": 'Lean theorems over all LOS-protocol histories (any length, any objects): one_set — the four treadmill sets are duplicate-free, pairwise disjoint and their union is exactly the added-and-not-yet-swept objects (count = 1); sweep_exact — after flip(full) and any marking phase, release hands back exactly the unmarked objects of the allocation nursery (and, full GC, of the old to-space), each once, every marked object ends in to_space unswept; nursery_gc_keeps_mature; protocol_never_panics (TreadMill::copy\'s debug assertion cannot fire). Model = the five TreadMill methods over duplicate-free lists, compared exactly (all four sets after every op) with the real TreadMill.',
    "note": 'Trusted: Lean kernel + standard axioms; HashSet modelled as duplicate-free list; the LOS protocol (allowed) is read off largeobjectspace.rs and is an assumption of the theorems; tie = sampling differential through verif::ds::TreadMill + verif_sets accessor with fake never-mapped ObjectReferences; malformed stream (protocol violations, mutex poisoning in debug, double membership in release) is compared model-vs-code only.',
    "technique": 'Lean 4 proof (invariant over a protocol transition system, induction over histories) + exact differential',
}


def main(argv=None):
    return unit.main(Spec(), argv)
