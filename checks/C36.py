"""C36 — the large-object treadmill accounts for every object exactly once.

Two differential streams share the one evidence file / exit code:
  * `tread` — the real `util::treadmill::TreadMill` driven with the LOS protocol written out by the generator;
  * `los`   — the REAL `LargeObjectSpace<VerifVM>` of a real MMTk instance (one hx_unit process per plan), driven by
              hand exactly as a collection does: prepare(full) / trace_object(queue, obj) / release(full); which set
              `copy` is called with, when the mark state flips, which bits an object carries is decided by mmtk-core.
"""
import argparse, json, os, re, time
from vlib import unit
from vlib import engine as E
from vlib.engine import Case, Violation

SETS = re.compile(r"^(.*) \| F=\[([\d,]*)\] T=\[([\d,]*)\] C=\[([\d,]*)\] A=\[([\d,]*)\]$")


def ids(s):
    return [int(x) for x in s.split(",")] if s else []


def parse(line):
    """-> (result, F, T, C, A) or None (panic / garbage)."""
    m = SETS.match(line)
    if not m:
        return None
    return (m.group(1), ids(m.group(2)), ids(m.group(3)), ids(m.group(4)), ids(m.group(5)))


class Gen:
    """Protocol-respecting LOS histories (python shadow only decides which op is legal next)."""

    def __init__(self, rng, big):
        self.rng, self.ops = rng, ["tread new"]
        self.F, self.T, self.C, self.A = set(), set(), set(), set()
        self.phase = "mut"
        self.pool = (lambda: rng.randrange(0, 24)) if not big else (
            lambda: rng.choice([rng.randrange(0, 24), rng.randrange(0, 1 << 40), (1 << 59) + rng.randrange(0, 8)]))

    def fresh(self):
        for _ in range(50):
            o = self.pool()
            if o not in self.F | self.T | self.C | self.A:
                return o
        return None

    def add(self, nursery):
        o = self.fresh()
        if o is None:
            return
        (self.A if nursery else self.T).add(o)
        self.ops.append(f"tread add {o} {1 if nursery else 0}")

    def gc(self, full, pmark):
        rng = self.rng
        self.A, self.C = self.C, self.A
        if full:
            self.F, self.T = self.T, self.F
        self.ops.append(f"tread flip {1 if full else 0}")
        work = [(o, 1) for o in self.C] + [(o, 0) for o in self.F]
        rng.shuffle(work)
        for o, fl in work:
            if rng.random() < pmark:
                (self.C if fl else self.F).discard(o)
                self.T.add(o)
                self.ops.append(f"tread copy {o} {fl}")
            if rng.random() < 0.08:
                self.add(False)          # allocation as live during (concurrent) marking
            if rng.random() < 0.04:
                self.ops.append("tread empties")
        self.C = set()
        self.ops.append("tread collect_nursery")
        if full:
            self.F = set()
            self.ops.append("tread collect_mature")

    def history(self, n):
        rng = self.rng
        pmark = rng.choice([0.0, 0.3, 0.5, 0.8, 1.0])
        while len(self.ops) < n:
            r = rng.random()
            if r < 0.70:
                self.add(rng.random() < 0.88)
            elif r < 0.75:
                self.ops.append("tread empties")
            else:
                self.gc(rng.random() < 0.4, pmark)
        return self.ops


def malformed(rng, n):
    """Mostly-valid history with protocol violations spliced in (expected outcome: whatever the
    real code does — in debug builds `copy` of an object not in its source set asserts, which
    poisons the mutex; in release builds it silently inserts)."""
    g = Gen(rng, False)
    ops = g.history(max(4, n))
    k = rng.randrange(1, 5)
    for _ in range(k):
        i = rng.randrange(1, len(ops) + 1)
        o = rng.randrange(0, 26)
        bad = rng.choice([f"tread copy {o} 1", f"tread copy {o} 0", f"tread add {o} 1", f"tread add {o} 0",
                          "tread collect_mature", "tread collect_nursery", "tread flip 1", "tread flip 0",
                          "tread empties"])
        ops.insert(i, bad)
    if rng.random() < 0.1:
        ops = ops[1:]          # no `new` first
    return ops


class Spec(unit.UnitSpec):
    pid = "C36"
    modules = ["MmtkModel.Props.C36"]
    theorems = ["Mmtk.Treadmill.one_set", "Mmtk.Treadmill.one_set_structured", "Mmtk.Treadmill.sweep_exact",
                "Mmtk.Treadmill.nursery_gc_keeps_mature", "Mmtk.Treadmill.protocol_never_panics",
                "Mmtk.Treadmill.inv_step", "Mmtk.Treadmill.marking_run"]
    component = "tread"
    relation = "Mmtk.Treadmill.{addToTreadmill,flip,copy,collectNursery,collectMature} ≙ util::treadmill::TreadMill"
    assumptions = [
        "HashSet<ObjectReference> is modelled as a duplicate-free list (insert/remove/take/swap/contains/is_empty)",
        "all TreadMill operations run under its single mutex, so concurrent GC workers are a sequence of operations",
        "LOS protocol (Mmtk.Treadmill.allowed): add only fresh objects, young only in mutator phase; flip in mutator "
        "phase; copy(o, flag) only during marking with o in the set the flag names; collect_nursery after marking; "
        "collect_mature only in a full GC after collect_nursery — read off largeobjectspace.rs "
        "(initialize_object_metadata / prepare / trace_object / release); LOS itself is exercised by C01/C07",
        "objects are opaque: fake ObjectReferences at never-mapped addresses (a dereference would crash hx_unit)"]
    rule = ("seeded protocol-respecting LOS histories (20..160 ops: young/as-live allocation, nursery and full GCs with "
            "mark probability 0/.3/.5/.8/1, as-live allocation during marking, address reuse after sweeping, ids up to "
            "2^59) plus a malformed stream (copy of absent object / wrong flag, double copy, re-add, young allocation "
            "during GC, collect_mature in a nursery GC, flip during GC, no `new`); every op prints the four sorted "
            "sets; non-trivial = a GC that both marks and sweeps something; distinct = distinct (history, outputs)")

    def gen(self, rng, tier, debug):
        n = 2000 if tier == "quick" else 40000
        cases = []
        for i in range(n):
            ln = rng.choice([3, 8, 20, 40, 80, 160])
            if rng.random() < 0.75:
                cases.append(Case(Gen(rng, rng.random() < 0.2).history(ln), tag="valid"))
            else:
                cases.append(Case(malformed(rng, ln), tag="malformed"))
        return cases

    def corpus(self, debug):
        return [
            Case(["tread new", "tread add 1 1", "tread add 2 1", "tread add 3 0", "tread flip 0", "tread copy 1 1",
                  "tread collect_nursery", "tread add 4 1", "tread flip 1", "tread copy 4 1", "tread add 9 0",
                  "tread copy 1 0", "tread collect_nursery", "tread collect_mature", "tread empties"], tag="valid"),
            Case(["tread new", "tread flip 1", "tread collect_nursery", "tread collect_mature", "tread empties"], tag="valid"),
            Case(["tread new", "tread add 5 1", "tread flip 0", "tread copy 5 0", "tread empties", "tread add 1 1"],
                 tag="malformed"),
            Case(["tread new", "tread add 5 1", "tread add 5 0", "tread flip 1", "tread copy 5 1", "tread copy 5 1",
                  "tread collect_nursery", "tread collect_mature"], tag="malformed"),
            Case(["tread add 1 1", "tread bogus", "tread new", "tread bogus"], tag="malformed"),
        ]

    # ---- the property's own statement, evaluated on what the implementation printed -------------
    def oracle(self, case, impl_out):
        bad = []
        phase, alive, copied = None, set(), set()
        A0, T0, full = set(), set(), False
        prev = None                      # (F, T, C, A) printed by the previous op
        for op, out in zip(case.ops, impl_out):
            t = op.split()
            if t[:2] == ["tread", "new"]:
                phase, alive, copied = "mut", set(), set()
                p = parse(out)
                if p is None or any(p[1:]):
                    bad.append(("tread:new", f"new treadmill is not empty: {out}"))
                    return bad
                prev = p[1:]
                continue
            if phase is None or len(t) < 2:
                return bad               # no treadmill / not an op: nothing is claimed
            F, T, C, A = (set(x) for x in prev)
            kind = t[1]
            # protocol precondition (Mmtk.Treadmill.allowed), decided on the implementation's own sets
            if kind == "add" and len(t) == 4:
                o, n = int(t[2]), t[3] != "0"
                ok = o not in (F | T | C | A) and (not n or phase == "mut")
            elif kind == "flip" and len(t) == 3:
                ok = phase == "mut"
            elif kind == "copy" and len(t) == 4:
                o, n = int(t[2]), t[3] != "0"
                ok = phase == "mark" and (o in C if n else o in F)
            elif kind == "collect_nursery":
                ok = phase == "mark"
            elif kind == "collect_mature":
                ok = phase == "swept"
            elif kind == "empties":
                ok = True
            else:
                return bad
            if not ok:
                return bad               # history left the protocol: nothing is claimed afterwards
            p = parse(out)
            if p is None:
                bad.append(("tread:panic", f"`{op}` respects the LOS protocol but the treadmill answered {out!r}"))
                return bad
            res, nF, nT, nC, nA = p
            if kind == "add":
                alive.add(o)
            elif kind == "flip":
                full = t[2] != "0"
                phase, copied, A0, T0 = "mark", set(), set(A), set(T)
            elif kind == "copy":
                copied.add(o)
            elif kind == "empties":
                want = " ".join("true" if not x else "false" for x in (nF, nT, nC, nA))
                if res != want:
                    bad.append(("tread:empties", f"is_*_empty says {res}, sets are {out}"))
            elif kind == "collect_nursery":
                got = ids(res.strip("[]"))
                if len(set(got)) != len(got) or set(got) != A0 - copied:
                    bad.append(("tread:sweep-nursery", f"collect_nursery returned {sorted(got)}, the unmarked young "
                                                       f"objects are {sorted(A0 - copied)}"))
                alive -= set(got)
                phase = "swept" if full else "mut"
                if not full:
                    if not T0 <= set(nT) or set(got) & T0 or nF:
                        bad.append(("tread:nursery-keeps-mature", f"nursery GC lost mature objects: before {sorted(T0)}, "
                                                                  f"after T={nT} F={nF} swept={got}"))
                    if not copied <= set(nT):
                        bad.append(("tread:marked-kept", f"marked objects {sorted(copied - set(nT))} not in to_space"))
            elif kind == "collect_mature":
                got = ids(res.strip("[]"))
                if len(set(got)) != len(got) or set(got) != T0 - copied:
                    bad.append(("tread:sweep-mature", f"collect_mature returned {sorted(got)}, the unmarked old "
                                                      f"objects are {sorted(T0 - copied)}"))
                alive -= set(got)
                phase = "mut"
                if not copied <= set(nT):
                    bad.append(("tread:marked-kept", f"marked objects {sorted(copied - set(nT))} not in to_space"))
            # one_set: every alive object in exactly one set, nothing else anywhere
            allo = nF + nT + nC + nA
            if len(set(allo)) != len(allo) or set(allo) != alive:
                bad.append(("tread:one-set", f"after `{op}` the sets {out.split('|')[-1].strip()} do not hold each of "
                                             f"the alive objects {sorted(alive)} exactly once"))
            # phase shape asserted by LargeObjectSpace::release
            if (phase == "mut" and (nC or nF)) or (phase == "mark" and nA) or (phase == "swept" and (nC or nA)):
                bad.append(("tread:phase-shape", f"after `{op}` in phase {phase}: {out}"))
            if bad:
                return bad
            prev = (nF, nT, nC, nA)
        return bad

    def nontrivial(self, case, out):
        marks = sum(1 for o in case.ops if o.startswith("tread copy"))
        swept = any(l.startswith("[") and not l.startswith("[]") for l in out)
        return marks > 0 and swept

    def summarize(self, cases, outs):
        h, tags, lens, gcs, panics = {}, {}, {}, {"nursery": 0, "full": 0}, 0
        for c, o in zip(cases, outs):
            tags[c.tag or "?"] = tags.get(c.tag or "?", 0) + 1
            b = "1-9" if len(c.ops) < 10 else "10-49" if len(c.ops) < 50 else "50-99" if len(c.ops) < 100 else "100+"
            lens[b] = lens.get(b, 0) + 1
            for op in c.ops:
                k = " ".join(op.split()[1:2])
                h[k] = h.get(k, 0) + 1
                if op == "tread flip 0":
                    gcs["nursery"] += 1
                if op == "tread flip 1":
                    gcs["full"] += 1
            panics += sum(1 for l in o if l.startswith("panic"))
        return {"ops": h, "case_kind": tags, "history_length": lens, "gcs": gcs, "panic_lines": {"n": panics}}


META = {
    "text": 'Two layers. (1) TreadMill: Lean theorems over all LOS-protocol histories (any length, any objects): one_set — the four treadmill sets are duplicate-free, pairwise disjoint and their union is exactly the added-and-not-yet-swept objects (count = 1); sweep_exact — after flip(full) and any marking phase, release hands back exactly the unmarked objects of the allocation nursery (and, full GC, of the old to-space), each once, every marked object ends in to_space unswept; nursery_gc_keeps_mature; protocol_never_panics (TreadMill::copy\'s debug assertion cannot fire). Model = the five TreadMill methods over duplicate-free lists, compared exactly (all four sets after every op) with the real TreadMill. (2) LargeObjectSpace itself (Model/LOS.lean: initialize_object_metadata, prepare, is_in_nursery, test_and_mark with its two masks, trace_object, release; histories = alloc / set_allocate_as_live / prepare f / trace of any live object any number of times / release f): los_one_set; los_bits (nursery bit <=> object in alloc or collection nursery, mark bit = mark_state <=> object in to_space/alloc nursery/(nursery GC) collection nursery); los_sweep_exact (release sweeps exactly the untraced objects of the collected sets — nursery always, mature iff full — each once; traced and as-live-allocated objects are kept; an object is enqueued exactly at its first trace in a GC that collects it, so at most once); los_nursery_gc_keeps_mature; los_swept_once_ever (#allocations = #sweeps + [alive] per address); los_protocol_never_panics. This model is compared exactly with the REAL LargeObjectSpace of real MMTk instances (GenImmix, SemiSpace; thorough: 6 plans) driven by hand through prepare/trace_object/release, printing mark_state, in_nursery_gc, the four sets and the raw bits of every live object after every op; swept ids come from the release_pages events of the sweep closure.',
    "note": 'Trusted: Lean kernel + standard axioms; HashSet modelled as duplicate-free list; the LOS protocol (allowed) is read off largeobjectspace.rs and is an assumption of the theorems; tie = sampling differential through verif::ds::TreadMill + verif_sets accessor with fake never-mapped ObjectReferences; malformed stream (protocol violations, mutex poisoning in debug, double membership in release) is compared model-vs-code only. LOS layer: single GC worker (CAS succeeds at once; contention is C18), the plan-level protocol (Mmtk.LOS.allowed) is an assumption read off CommonPlan::prepare/release and ProcessEdgesWork, VO/unlog bits not modelled; tie = sampling differential through verif::los hooks on a real plan instance, no GC is run.',
    "technique": 'Lean 4 proof (invariant over a protocol transition system, induction over histories) + exact differential',
}



# =====================================================================================================================
# the `los` stream: the real LargeObjectSpace
# =====================================================================================================================

LOS_LINE = re.compile(r"^(\S+) \| ms=(\d+) ng=(\d+) F=\[([^\]]*)\] T=\[([^\]]*)\] C=\[([^\]]*)\] A=\[([^\]]*)\] bits=\[([^\]]*)\]$")
PLANS_QUICK = ["GenImmix", "SemiSpace"]
PLANS_THOROUGH = ["GenImmix", "GenCopy", "StickyImmix", "SemiSpace", "Immix", "MarkSweep"]


def los_parse(line):
    """-> dict(res, ms, ng, F, T, C, A, bits{id: value}) or None (panic / garbage / `?addr` entries)."""
    m = LOS_LINE.match(line)
    if not m:
        return None
    try:
        sets = [[int(x) for x in g.split(",")] if g else [] for g in m.groups()[3:7]]
        bits = dict((int(a), int(b)) for a, b in (x.split(":") for x in m.group(8).split(","))) if m.group(8) else {}
    except ValueError:
        return None
    return {"res": m.group(1), "ms": int(m.group(2)), "ng": int(m.group(3)), "F": sets[0], "T": sets[1], "C": sets[2],
            "A": sets[3], "bits": bits}


class LosGen:
    """Protocol-respecting histories for the real LOS.  The python shadow (young / old id sets) only decides which
    ids are still alive, so that valid histories never name a swept object."""

    def __init__(self, rng, plan, nobj, ngc):
        self.rng, self.ops = rng, [f"los reset {plan}"]
        self.young, self.old, self.dead = set(), set(), set()
        self.next, self.nobj, self.ngc, self.count = 1, nobj, ngc, 0
        self.aslive = False
        self.stats = {"gcs": 0, "full": 0, "max_full_survivals": 0}
        self.surv = {}             # id -> consecutive full GCs survived

    def alloc(self, k=1):
        for _ in range(k):
            if self.count >= self.nobj:
                return
            o = self.next if self.rng.random() < 0.8 else self.rng.randrange(self.next, self.next + 40)
            self.next, self.count = o + 1, self.count + 1
            (self.old if self.aslive else self.young).add(o)
            self.ops.append(f"los alloc {o}")

    def gc(self, full, pmark, keep):
        rng = self.rng
        self.ops.append(f"los prepare {1 if full else 0}")
        collected = set(self.young) | (set(self.old) if full else set())
        everything = sorted(self.young | self.old)
        traced = set()
        work = [o for o in everything if o in keep or rng.random() < pmark]
        work += [rng.choice(work) for _ in range(rng.randrange(0, 4)) if work]        # repeats
        rng.shuffle(work)
        for o in work:
            self.ops.append(f"los trace {o}")
            traced.add(o)
            if rng.random() < 0.15:
                self.ops.append(f"los trace {o}")                                       # immediate re-trace
            if rng.random() < 0.06 and self.count < self.nobj:                          # allocation as live while marking
                self.ops.append("los aslive 1"); self.aslive = True
                self.alloc(rng.randrange(1, 3))
                if rng.random() < 0.5:
                    self.ops.append(f"los trace {self.next - 1}")
                self.ops.append("los aslive 0"); self.aslive = False
        self.ops.append(f"los release {1 if full else 0}")
        swept = collected - traced
        self.dead |= swept
        self.young -= collected
        self.old = (self.old - swept) | (collected & traced)
        self.stats["gcs"] += 1
        if full:
            self.stats["full"] += 1
            self.surv = {o: self.surv.get(o, 0) + 1 for o in self.old if o in collected}
            self.stats["max_full_survivals"] = max([self.stats["max_full_survivals"], *self.surv.values()])

    def history(self):
        rng = self.rng
        shape = rng.choice(["mixed", "mixed", "mixed", "full-chain", "all-die", "nursery-only", "all-live"])
        pfull = {"mixed": 0.45, "full-chain": 1.0, "all-die": 0.6, "nursery-only": 0.0, "all-live": 0.5}[shape]
        pmark = {"all-die": 0.0, "all-live": 1.0}.get(shape, rng.choice([0.2, 0.5, 0.8]))
        self.alloc(rng.randrange(1, self.nobj + 1))
        keep = set()
        for g in range(self.ngc):
            if shape in ("mixed", "full-chain") and rng.random() < 0.7:
                alive = sorted(self.young | self.old)
                keep |= set(rng.sample(alive, min(len(alive), rng.randrange(1, 4)))) if alive else set()
            if rng.random() < 0.1:
                self.ops.append("los aslive 1"); self.aslive = True
                self.alloc(1)
                self.ops.append("los aslive 0"); self.aslive = False
            self.gc(rng.random() < pfull, pmark, keep if shape != "all-die" else set())
            if rng.random() < 0.8:
                self.alloc(rng.randrange(0, 9))
        return self.ops, shape


def los_malformed(rng, plan, nobj, ngc):
    """A valid history with protocol violations spliced in: every one of them must be answered by an error token
    (`dead`, `unknown`, `dup`, `refused`) on both sides, and the real LOS must be left untouched by it."""
    g = LosGen(rng, plan, nobj, ngc)
    ops, _ = g.history()
    for _ in range(rng.randrange(1, 6)):
        i = rng.randrange(1, len(ops) + 1)
        o = rng.choice([rng.randrange(1, g.next + 3), rng.randrange(1, g.next + 3), 999])
        ops.insert(i, rng.choice([f"los trace {o}", f"los trace {o}", f"los alloc {o}", "los prepare 0", "los prepare 1",
                                  "los release 0", "los release 1", "los bogus 1", "los trace", "los alloc x"]))
    return ops


class LosSpec(unit.UnitSpec):
    pid = "C36"
    modules = ["MmtkModel.Props.C36"]
    theorems = []            # audited once, by `main`
    component = "los"
    relation = "Mmtk.LOS.{alloc,prepare,traceObject,release} ≙ policy::largeobjectspace::LargeObjectSpace (real plan instance)"

    def __init__(self, plan):
        self.plan = plan

    def gen(self, rng, tier, debug):
        n = 500 if tier == "quick" else 3000
        cases = []
        for i in range(n):
            nobj, ngc = rng.choice([1, 2, 3, 5, 8, 8, 13, 13, 20, 25, 25]), rng.choice([1, 1, 2, 3, 4, 6, 8])
            if rng.random() < 0.8:
                ops, shape = LosGen(rng, self.plan, nobj, ngc).history()
                cases.append(Case(ops, tag="los:" + shape))
            else:
                cases.append(Case(los_malformed(rng, self.plan, nobj, ngc), tag="los:malformed"))
        return cases

    def corpus(self, debug):
        P = self.plan
        return [
            # the history a blind tester found to be missed: alloc -> full GC (marked) -> full GC (marked again)
            Case([f"los reset {P}", "los alloc 1", "los prepare 1", "los trace 1", "los release 1", "los prepare 1",
                  "los trace 1", "los release 1", "los prepare 1", "los trace 1", "los trace 1", "los release 1",
                  "los prepare 1", "los release 1"], tag="los:corpus"),
            # nursery GC: mature objects are skipped and kept; young unmarked die
            Case([f"los reset {P}", "los alloc 1", "los alloc 2", "los prepare 0", "los trace 1", "los release 0",
                  "los alloc 3", "los alloc 4", "los prepare 0", "los trace 1", "los trace 3", "los trace 3",
                  "los release 0", "los prepare 1", "los trace 3", "los release 1"], tag="los:corpus"),
            # allocation as live while marking; error tokens
            Case([f"los reset {P}", "los alloc 1", "los prepare 1", "los alloc 2", "los aslive 1", "los alloc 2",
                  "los trace 2", "los aslive 0", "los release 0", "los release 1", "los trace 1", "los trace 7",
                  "los alloc 2", "los prepare 1", "los prepare 0", "los trace 2", "los release 1"], tag="los:malformed"),
        ]

    # ---- the property's own statement, evaluated on what the implementation printed -------------
    def oracle(self, case, impl_out):
        bad = []
        prev = None                          # parsed state printed by the previous op
        alive, swept_ever, allocated = set(), set(), set()
        gc, A0, T0, traced, enq = None, set(), set(), set(), set()
        for op, out in zip(case.ops, impl_out):
            t = op.split()
            if t[:2] == ["los", "reset"]:
                p = los_parse(out)
                if out == "bad-plan":
                    return bad
                if p is None or p["res"] != "ok" or p["F"] or p["T"] or p["C"] or p["A"] or p["bits"] or p["ms"] or p["ng"]:
                    bad.append(("los:reset", f"`{op}` did not leave an empty space: {out}"))
                    return bad
                prev, alive, swept_ever, allocated, gc = p, set(), set(), set(), None
                continue
            if prev is None:
                return bad                   # no space yet: nothing is claimed
            if out.startswith("bad-op"):
                continue
            p = los_parse(out)
            if p is None:
                bad.append(("los:panic", f"`{op}` respects the LOS protocol but the real space answered {out!r}"))
                return bad
            res, kind = p["res"], t[1]
            F, T, C, A = set(p["F"]), set(p["T"]), set(p["C"]), set(p["A"])
            if res in ("refused", "dup", "dead", "unknown"):
                # the component refused the call itself: the real space must not have changed
                if any(p[k] != prev[k] for k in ("ms", "ng", "F", "T", "C", "A", "bits")):
                    bad.append(("los:refused-changed-state", f"`{op}` -> {out}, before: {prev}"))
                if (res == "dead" and int(t[2]) not in swept_ever) or (res == "unknown" and int(t[2]) in allocated):
                    bad.append(("los:harness-table", f"`{op}` -> {res}"))
                if bad:
                    return bad
                prev = p
                continue
            o = int(t[2])
            if kind == "alloc":
                alive.add(o); allocated.add(o)
                if res != "ok" or o not in (A | T) or (gc is not None and o not in T):
                    bad.append(("los:alloc", f"`{op}` -> {out}"))
            elif kind == "aslive":
                pass
            elif kind == "prepare":
                gc = o != 0
                A0, T0, traced, enq = set(prev["A"]), set(prev["T"]), set(), set()
                if p["ms"] != (1 - prev["ms"] if gc else prev["ms"]) or p["ng"] != (0 if gc else 1):
                    bad.append(("los:prepare", f"`{op}`: mark_state {prev['ms']} -> {p['ms']}, in_nursery_gc {p['ng']}"))
            elif kind == "trace":
                collected = A0 | (T0 if gc else set())
                want = o in collected and o not in traced
                if (res == "enq") != want or res not in ("enq", "skip"):
                    bad.append(("los:enqueue", f"`{op}` answered {res}; object {o} is{'' if o in collected else ' not'} in a "
                                               f"collected set and was{'' if o in traced else ' not'} traced before in this GC "
                                               f"(an object is enqueued exactly at its first trace in a GC that collects it)"))
                traced.add(o)
                if o not in T and o in collected:
                    bad.append(("los:marked-kept", f"after `{op}` the traced object is not in to_space: {out}"))
            elif kind == "release":
                m = re.match(r"^swept=\[([\d,]*)\]$", res)
                if not m:
                    bad.append(("los:sweep-exact", f"`{op}` -> {res}"))
                    return bad
                got = ids(m.group(1))
                collected = A0 | (T0 if gc else set())
                if len(set(got)) != len(got) or set(got) != collected - traced:
                    bad.append(("los:sweep-exact", f"`{op}` released the pages of {sorted(got)}; the untraced objects of the "
                                                   f"collected sets are {sorted(collected - traced)} (collected {sorted(collected)}, "
                                                   f"traced {sorted(traced)})"))
                if set(got) & swept_ever:
                    bad.append(("los:swept-twice", f"`{op}` released {sorted(set(got) & swept_ever)} a second time"))
                if not (traced & alive) <= T:
                    bad.append(("los:marked-kept", f"traced objects {sorted((traced & alive) - T)} are not in to_space after `{op}`: {out}"))
                if not gc and (not T0 <= T or set(got) & T0):
                    bad.append(("los:nursery-keeps-mature", f"nursery GC lost mature objects: before {sorted(T0)}, after T={sorted(T)} swept={got}"))
                alive -= set(got); swept_ever |= set(got)
                gc = None
            else:
                continue
            # (a) every live object is in exactly one set, nothing else anywhere
            allo = p["F"] + p["T"] + p["C"] + p["A"]
            if len(set(allo)) != len(allo) or set(allo) != alive:
                bad.append(("los:one-set", f"after `{op}` the sets of the real space do not hold each of the live objects "
                                           f"{sorted(alive)} exactly once: {out}"))
            # (b) the per-object bits agree with the set the object is in
            ms = p["ms"]
            if set(p["bits"]) != alive or ms not in (0, 1):
                bad.append(("los:bits", f"after `{op}`: bits of {sorted(p['bits'])}, live {sorted(alive)}, ms={ms}"))
            for i, b in p["bits"].items():
                nursery, marked = bool(b & 2), (b & 1) == ms
                want_marked = i in T or i in A or (gc is False and i in C)
                if b > 3 or nursery != (i in A or i in C) or marked != want_marked:
                    bad.append(("los:bits", f"after `{op}` object {i} has bits {b} (mark_state {ms}) but is in "
                                            f"{'F' if i in F else 'T' if i in T else 'C' if i in C else 'A' if i in A else 'no set'}"
                                            f"{'' if gc is None else ' during a full GC' if gc else ' during a nursery GC'}"))
                    break
            # phase shape (what LargeObjectSpace::release debug_asserts)
            if (gc is None and (C or F)) or (gc is not None and A) or (gc is False and F):
                bad.append(("los:phase-shape", f"after `{op}`: {out}"))
            if bad:
                return bad
            prev = p
        return bad

    def nontrivial(self, case, out):
        return any(l.startswith("enq ") for l in out) and any(l.startswith("swept=[") and not l.startswith("swept=[]") for l in out)

    def summarize(self, cases, outs):
        h, tags, gcs, objs, ngc, res, surv = {}, {}, {"nursery": 0, "full": 0}, {}, {}, {}, {}
        for c, o in zip(cases, outs):
            tags[c.tag or "?"] = tags.get(c.tag or "?", 0) + 1
            na = sum(1 for x in c.ops if x.startswith("los alloc"))
            ng = sum(1 for x in c.ops if x.startswith("los prepare"))
            b = "1-3" if na <= 3 else "4-8" if na <= 8 else "9-15" if na <= 15 else "16+"
            objs[b] = objs.get(b, 0) + 1
            b = str(ng) if ng <= 3 else "4-5" if ng <= 5 else "6+"
            ngc[b] = ngc.get(b, 0) + 1
            streak, best = {}, 0
            for op, l in zip(c.ops, o):
                k = " ".join(op.split()[1:2])
                h[k] = h.get(k, 0) + 1
                r = l.split(" ")[0].split("=")[0]
                if op == "los release 1" and r == "swept":
                    pp = los_parse(l)
                    streak = {i: streak.get(i, 0) + 1 for i in (pp["T"] if pp else [])}
                    best = max([best, *streak.values()])
                res[r] = res.get(r, 0) + 1
                if op == "los prepare 0":
                    gcs["nursery"] += 1
                if op == "los prepare 1":
                    gcs["full"] += 1
            b = str(best) if best <= 3 else "4+"
            surv[b] = surv.get(b, 0) + 1
        return {"los_full_gcs_survived_in_a_row_max_per_case": surv, "los_ops": h, "los_case_kind": tags, "los_gcs": gcs, "los_objects_per_case": objs, "los_gcs_per_case": ngc,
                "los_results": res, "los_plan_cases": {self.plan: len(cases)}}


LOS_THEOREMS = ["Mmtk.LOS.los_one_set", "Mmtk.LOS.los_one_set_structured", "Mmtk.LOS.los_bits", "Mmtk.LOS.los_bits_mutator",
                "Mmtk.LOS.los_sweep_exact", "Mmtk.LOS.los_nursery_gc_keeps_mature", "Mmtk.LOS.los_swept_once_ever", "Mmtk.LOS.los_is_live_exact", "Mmtk.LOS.los_is_live_iff_not_swept",
                "Mmtk.LOS.los_protocol_never_panics", "Mmtk.LOS.inv_step", "Mmtk.LOS.gc_run", "Mmtk.LOS.trace_young",
                "Mmtk.LOS.trace_old", "Mmtk.LOS.trace_kept", "Mmtk.LOS.release_spec"]

LOS_ASSUMPTIONS = [
    "los stream: single GC worker (the CAS of test_and_mark succeeds at once); concurrent workers are covered at the "
    "treadmill level (one mutex) and by C18 (test_and_mark marks exactly once under contention)",
    "los stream protocol (Mmtk.LOS.allowed): alloc of an address that is in no set, nursery allocation only between GCs, "
    "as-live allocation any time; prepare(f) between GCs; trace of any object currently in the space, any number of "
    "times, in any order; release(f) with the flag of prepare — read off CommonPlan::prepare/release and ProcessEdgesWork",
    "the VO bit and the unlog bit that LargeObjectSpace also maintains are not modelled (C31/C32 cover them)"]

LOS_RULE = ("los stream, one hx_unit process per plan (quick: GenImmix, SemiSpace; thorough: + GenCopy, StickyImmix, Immix, "
            "MarkSweep): protocol-respecting histories on the REAL LargeObjectSpace of a real MMTk instance — 1..25 real "
            "large objects (1-3 pages), 1..8 GCs mixing nursery and full-heap (shapes: mixed, chain of full GCs with a "
            "survivor set traced every time, everything dies, nursery only, everything lives), traces of random subsets "
            "with repeats, mature objects traced in nursery GCs, allocation between GCs, allocation as live while marking; "
            "malformed stream: trace of a swept / unknown id, duplicate id, nursery allocation / prepare during a GC, "
            "release without or with the wrong flag, garbage (answered by error tokens, the real space must not change); "
            "every op prints mark_state, in_nursery_gc, the four sorted sets and the raw bits of every live object; "
            "swept ids are read from the sweep closure's release_pages events (with multiplicity); non-trivial = a "
            "history that both enqueues and sweeps")


def merge_stats(dst, src, prefix):
    for k in ("evaluations", "op_lines", "disagreements"):
        dst[k] = dst.get(k, 0) + src.get(k, 0)
    dst.setdefault("build_s", []).extend(src.get("build_s", []))
    dst.setdefault("_distinct", set()).update((prefix,) + x for x in src.get("_distinct", set()))
    dst.setdefault("samples", []).extend(src.get("samples", [])[:2])
    for k, v in src.get("distribution", {}).items():
        if isinstance(v, dict):
            d = dst.setdefault("distribution", {}).setdefault(k, {})
            for kk, vv in v.items():
                d[kk] = d.get(kk, 0) + vv
        else:
            dst.setdefault("distribution", {})[k] = v
    dst.setdefault("stream_evaluations", {})[prefix] = src.get("evaluations", 0)


def main(argv=None):
    ap = argparse.ArgumentParser()
    ap.add_argument("--tier", default=os.environ.get("VERIF_TIER", "quick"))
    ap.add_argument("--seed", type=int, default=int(os.environ.get("VERIF_SEED", "20260921")))
    ap.add_argument("--replay")
    a = ap.parse_args(argv)
    t0 = time.time()
    tread = Spec()
    if a.replay:
        lines = [l for l in json.load(open(a.replay))["case"] if not l.startswith("cfg ")]
        plan = next((l.split()[2] for l in lines if l.startswith("los reset ") and len(l.split()) == 3), None)
        return unit.replay(LosSpec(plan) if plan or any(l.startswith("los") for l in lines) else tread, a.replay)
    violations, stats = [], {}
    theorems = tread.theorems + LOS_THEOREMS
    lean = E.lean_check(tread.modules, theorems, fresh=(a.tier == "thorough"))
    lean["targets"] = tread.modules
    profiles = [True] + ([False] if a.tier == "thorough" else [])
    st = {}
    for debug in profiles:
        unit.run_profile(tread, a.tier, a.seed, debug, lean["ok"], violations, st)
    merge_stats(stats, st, "tread")
    for plan in (PLANS_QUICK if a.tier == "quick" else PLANS_THOROUGH):
        st = {}
        for debug in profiles:
            unit.run_profile(LosSpec(plan), a.tier, a.seed, debug, lean["ok"], violations, st)
        merge_stats(stats, st, "los:" + plan)
    if not lean["ok"] and not any(v.found_input for v in violations):
        names = [f.get("theorem") or f.get("module") or f["kind"] for f in lean["failures"]]
        violations.append(Violation("proof-broken", f"Lean obligations no longer check: {lean['failures']}",
                                    None, None, None, False, broken=f"theorems/modules: {names}"))
    corr = {
        "evaluations": stats.get("evaluations", 0),
        "distinct_nontrivial": len(stats.pop("_distinct", set())),
        "rule": tread.rule + " || " + LOS_RULE,
        "samples": stats.get("samples", []),
        "traces_validated_against_impl": stats.get("evaluations", 0),
        "disagreements_checked": stats.get("disagreements", 0),
        "op_lines": stats.get("op_lines", 0),
        "stream_evaluations": stats.get("stream_evaluations", {}),
        "distribution": stats.get("distribution", {}),
        "harness_build_s": stats.get("build_s"),
        "lean_s": lean.get("lean_s"),
    }
    return E.finish("C36", a.tier, a.seed, t0, lean, corr, violations, assumptions=tread.assumptions + LOS_ASSUMPTIONS)
