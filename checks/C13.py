"""C13 — VM weak-reference processing rounds run until the closure is complete.

Two parts, one evidence file / exit code: (1) the scheduler-wide ordering theorems + event-log conformance of package
`sched` (this file), (2) the round protocol of the VMRefClosure sentinel + ephemeron-table semantics of package `gcweak`
(`checks/c13_weak.py`, theorems in Props/C13Weak.lean), run through `extra`."""
import json, sys
from checks import sched_common as S
from checks import c13_weak as WK

PID = "C13"
MODULES = ["MmtkModel.Props.C13", *WK.MODULES]
THEOREMS = ["Mmtk.Sched.sentinel_only_when_drained", "Mmtk.Sched.sentinel_installed_by_packet",
            "Mmtk.Sched.onLastParked_sentinel", "Mmtk.Sched.step_other_sentinel", "Mmtk.Sched.open_only_when_quiescent",
            *WK.THEOREMS]
KEYS = S.COMMON_KEYS + ("gc:weak-outside-sentinel", "gc:weak-before-closure", "gc:weak-after-false",
                        "gc:weak-not-finished", "gc:forward-weak-count", "sched:not-quiescent")

META = {
    "text": "PART 1 (scheduler-wide ordering) on the scheduler model Model/Sched.lean: VMProcessWeakRefs is the sentinel of the "
            "VMRefClosure bucket and re-installs itself while process_weak_refs returns true. Proved for every transition "
            "from every reachable state, all interleavings, all n >= 1: a sentinel leaves its slot (becomes runnable) only "
            "in the park transition of the last parked worker, with all other workers parked, a Gc goal current, every open "
            "and enabled bucket empty and no designated work (sentinel_only_when_drained) — i.e. after everything runnable, "
            "including the closure spawned by the previous round, has finished; its bucket was opened only after all earlier "
            "enabled stages were empty (C15 open_only_when_quiescent); a sentinel is installed only by a running packet into "
            "an empty slot. Tie: real GCs with ephemeron chains needing 0..4 extra rounds on all plans (MarkCompact and "
            "Compressor forward after liveness): the monitor requires each VmProcessWeak callback to happen inside a "
            "VMRefClosure packet with all earlier stages drained and no earlier-stage packet running; oracles: never called "
            "again after it returned false, last call of a GC returned false, forward_weak_refs exactly once iff "
            "needs_forward_after_liveness. PART 2 (round protocol and survival): " + WK.META_PART["text"],
    "note": "'Objects it traced survive with updated addresses' is checked by part 2 (ephdump / enum / snapshots compared "
            "with the ephemeron model after every pause). " + WK.META_PART["note"],
    "technique": "Lean 4 proof: transition lemmas of an n-thread scheduler model + protocol invariant of the sentinel "
                 "rounds over all interleavings; event-log conformance monitors (every real action must be enabled in the "
                 "model) + callback oracles + ephemeron-model comparison",
    "category": "proof",
}


def build_programs(rng, tier):
    n = 40 if tier == "quick" else 400
    progs = []
    for i in range(n):
        plan = S.ALL_PLANS[i % len(S.ALL_PLANS)]
        w = [1, 2, 4, 8, 3, 16][(i // 2) % 6]
        eph = [0, 1, 2, 3, 4][i % 5]
        body = S.body_storm(rng, plan, n_wide=1, fields=[32, 300][i % 2], depth=[30, 400][(i // 2) % 2], gcs=3,
                            mutators=[1, 2][i % 2], eph=eph)
        progs.append(S.Prog(f"e{i}-{plan}-w{w}-k{eph}", plan, w, body, yseed=0 if i % 3 == 0 else rng.randrange(1, 1 << 30),
                            tags={f"eph{eph}"}))
    return progs


def main(argv=None):
    a = S.std_args(argv)
    if a.replay:
        try:
            key = json.load(open(a.replay)).get("key", "")
        except Exception:
            key = ""
        if key in WK.KEYS or key.startswith(("gc:weak-not", "gc:weak-sentinel", "gc:weak-rounds", "gc:weak-next", "gc:forward-weak", "gc:eph", "gc:enum")) \
                and key not in KEYS:
            return WK.main(["--replay", a.replay, "--tier", a.tier, "--seed", str(a.seed)])

    def weak_part(rng, tier):
        lean2, corr2, viol2 = WK.run(tier, a.seed)
        keep = ("evaluations", "distinct_nontrivial", "programs", "traces_validated_against_impl", "samples", "distribution", "rule")
        return viol2, {"weak_rounds_part": {k: corr2.get(k) for k in keep if k in corr2},
                       "weak_rounds_part_lean": {"obligations": lean2.get("obligations"), "discharged": lean2.get("discharged")}}

    return S.run_check(PID, MODULES, THEOREMS, KEYS, build_programs, argv, META, extra=weak_part)


if __name__ == "__main__":
    sys.exit(main(sys.argv[1:]))
