"""C33 — alignment and size arithmetic meet their specifications."""
from vlib import unit
from vlib.engine import Case

W = 1 << 64
MIN_ALIGN, MAX_ALIGN = 8, 64


def boundary(rng):
    k = rng.randrange(0, 64)
    return rng.choice([0, 1, 7, 8, 9, 4095, 4096, 4097, (1 << 22) - 1, 1 << 22, (1 << 22) + 1,
                       (1 << k), (1 << k) - 1, (1 << k) + 1, W - 1, W - 2, W - 4096, W - 4095, W - (1 << 22),
                       W - (1 << k), rng.getrandbits(64), rng.getrandbits(rng.randrange(1, 64))]) % W


class Spec(unit.UnitSpec):
    pid = "C33"
    modules = ["MmtkModel.Props.C33"]
    theorems = ["Mmtk.Arith.alignUp_spec", "Mmtk.Arith.alignDown_spec", "Mmtk.Arith.isAligned_iff",
                "Mmtk.Arith.rshiftAlignUp_eq_ceilDiv", "Mmtk.Arith.ceilDiv_least", "Mmtk.Arith.pagesUp_eq_ceilDiv",
                "Mmtk.Arith.chunksUp_eq_ceilDiv", "Mmtk.Arith.chunkAlignUp_spec", "Mmtk.Arith.chunkAlignDown_spec",
                "Mmtk.Arith.alignAllocation_least", "Mmtk.Arith.alignAllocation_noop",
                "Mmtk.Arith.maxAlignedSize_bounds"]
    component = "arith"
    relation = "Mmtk.Arith.* ≙ util::conversions / util::address / util::alloc::allocator"
    assumptions = ["usize = 64 bit", "VerifVM: MIN_ALIGNMENT=8, MAX_ALIGNMENT=64 (checked by `cfg vm_align`)",
                   "alignments are powers of two (documented precondition); non-powers are exercised only by the "
                   "differential (model transcribes the bit formula)"]
    rule = ("boundary-heavy random 64-bit inputs (0, 1, 2^k, 2^k±1, near 2^64) for each of 16 functions; alignment "
            "arguments are powers of two 90% of the time; non-trivial = result differs from the first argument or the "
            "call overflows/asserts; distinct = distinct (call, result)")

    def pre(self, debug):
        return [f"cfg debug {1 if debug else 0}", f"cfg vm_align {MIN_ALIGN} {MAX_ALIGN}"]

    def gen(self, rng, tier, debug):
        n = 6000 if tier == "quick" else 400000
        cases = []
        fns1 = ["bytes_to_pages_up", "bytes_to_chunks_up", "pages_to_bytes", "chunk_align_up", "chunk_align_down",
                "page_align_down", "is_page_aligned"]
        fns2 = ["raw_align_up", "raw_align_down", "raw_is_aligned", "addr_align_up", "addr_align_down", "addr_is_aligned_to"]
        for i in range(n):
            r = rng.random()
            if r < 0.25:
                cases.append(Case([f"arith {rng.choice(fns1)} {boundary(rng)}"]))
            elif r < 0.55:
                a = (1 << rng.randrange(0, 64)) if rng.random() < 0.9 else boundary(rng)
                cases.append(Case([f"arith {rng.choice(fns2)} {boundary(rng)} {a}"]))
            elif r < 0.65:
                bits = rng.choice([0, 1, 3, 12, 22, 63, rng.randrange(0, 64)]) if rng.random() < 0.95 else rng.choice([64, 65, 127, 200])
                cases.append(Case([f"arith rshift_align_up {boundary(rng)} {bits}"]))
            elif r < 0.9:
                legal = rng.random() < 0.9
                align = 1 << rng.randrange(3, 7) if legal else rng.choice([4, 12, 128, 24, 1 << rng.randrange(0, 10)])
                known = rng.choice([8, 8, 8, 16, 32]) if legal else rng.choice([4, 8, 64])
                off = (rng.randrange(0, 64) * 8 if rng.random() < 0.8 else (boundary(rng) & ~7 & ((1 << 63) - 1))) if legal else boundary(rng)
                region = boundary(rng) & ~7 if rng.random() < 0.8 else boundary(rng)
                if rng.random() < 0.6:
                    region = (0x20000000000 + rng.randrange(0, 1 << 30) * 8)
                cases.append(Case([f"arith align_alloc {region} {align} {off} {known}"]))
            else:
                legal = rng.random() < 0.9
                align = 1 << rng.randrange(3, 7) if legal else boundary(rng)
                known = rng.choice([8, 8, 16, 32]) if legal else rng.choice([4, 8, 24])
                size = (boundary(rng) & ~(known - 1)) if legal else boundary(rng)
                cases.append(Case([f"arith max_aligned_size {size} {align} {known}"]))
        return cases

    def corpus(self, debug):
        ls = ["arith raw_align_up 13 8", "arith raw_align_up 18446744073709547521 4096",
              "arith align_alloc 0x1008 32 8 8", "arith rshift_align_up 0xffffffffffffffff 3",
              "arith bytes_to_chunks_up 0xffffffffffffffff", "arith max_aligned_size 64 64 8",
              "arith align_alloc 0x1000 64 9223372036854775808 8", "arith rshift_align_up 5 64"]
        return [Case([l]) for l in ls]

    def oracle(self, case, impl_out):
        """C33's statement, directly: documented rounding for every input that does not overflow."""
        t = case.ops[0].split()
        fn, n = t[1], [int(x, 0) for x in t[2:]]
        out = impl_out[0] if impl_out else "crash"
        bad = []
        pow2 = lambda a: a > 0 and a & (a - 1) == 0

        def num():
            return int(out) if out.isdigit() else None
        if fn in ("raw_align_up", "addr_align_up", "chunk_align_up"):
            v, a = (n[0], n[1]) if len(n) > 1 else (n[0], 1 << 22)
            if pow2(a) and v + a - 1 < W and num() != (v + a - 1) // a * a:
                bad.append((f"arith:{fn}", f"{fn}({v},{a}) = {out}, expected least multiple ≥ v = {(v + a - 1) // a * a}"))
        elif fn in ("raw_align_down", "addr_align_down", "chunk_align_down", "page_align_down"):
            v = n[0]
            a = n[1] if len(n) > 1 else (4096 if fn == "page_align_down" else 1 << 22)
            if pow2(a) and num() != v // a * a:
                bad.append((f"arith:{fn}", f"{fn}({v},{a}) = {out}, expected {v // a * a}"))
        elif fn in ("raw_is_aligned", "addr_is_aligned_to", "is_page_aligned"):
            v = n[0]
            a = n[1] if len(n) > 1 else 4096
            if pow2(a) and out != ("true" if v % a == 0 else "false"):
                bad.append((f"arith:{fn}", f"{fn}({v},{a}) = {out}"))
        elif fn == "rshift_align_up":
            v, b = n
            if b < 64 and v + (1 << b) - 1 < W and num() != -(-v // (1 << b)):
                bad.append(("arith:rshift_align_up", f"rshift_align_up({v},{b}) = {out}, expected {-(-v // (1 << b))}"))
        elif fn == "bytes_to_pages_up":
            if n[0] + 4095 < W and num() != -(-n[0] // 4096):
                bad.append(("arith:bytes_to_pages_up", f"bytes_to_pages_up({n[0]}) = {out}"))
        elif fn == "bytes_to_chunks_up":
            if n[0] + (1 << 22) < W and num() != -(-n[0] // (1 << 22)):
                bad.append(("arith:bytes_to_chunks_up", f"bytes_to_chunks_up({n[0]}) = {out}"))
        elif fn == "align_alloc":
            region, align, off, known = n
            legal = (pow2(align) and MIN_ALIGN <= align <= MAX_ALIGN and off % MIN_ALIGN == 0 and known >= MIN_ALIGN
                     and off < (1 << 63) and region + align < (1 << 63))
            if legal:
                r = num()
                if align <= known:
                    exp = region
                else:
                    exp = region + ((-(region + off)) % align)
                if r != exp:
                    bad.append(("arith:align_allocation", f"align_allocation(region={region:#x}, align={align}, offset={off}, known={known}) = {out}, "
                                f"expected the least address ≥ region with (addr+offset)%align==0 = {exp}"))
        elif fn == "max_aligned_size":
            size, align, known = n
            if pow2(align) and MIN_ALIGN <= align <= MAX_ALIGN and pow2(known) and known >= MIN_ALIGN and size % known == 0 and size + align < W:
                exp = size if align <= known else size + align - known
                if num() != exp:
                    bad.append(("arith:max_aligned_size", f"get_maximum_aligned_size({size},{align},{known}) = {out}, expected {exp}"))
        return bad

    def nontrivial(self, case, out):
        t = case.ops[0].split()
        return bool(out) and out[0] != t[2]

    def summarize(self, cases, outs):
        h, k = {}, {}
        for c, o in zip(cases, outs):
            fn = c.ops[0].split()[1]
            h[fn] = h.get(fn, 0) + 1
            kind = o[0] if o and o[0].startswith("panic") else "value"
            k[kind] = k.get(kind, 0) + 1
        return {"function": h, "outcome": k}


META = {
    "text": 'Lean theorems for every function of C33 over all 64-bit inputs under explicit no-overflow hypotheses (least/greatest multiple, ceil-div, least aligned address, padding bound); the transcribed model is compared exactly with the real functions on boundary-heavy inputs in debug and release profiles.',
    "note": 'Trusted: Lean kernel + {propext, Classical.choice, Quot.sound}; the model is hand-transcribed (usize as Nat mod 2^64) and tied to the code by sampling differential only; VerifVM MIN/MAX_ALIGNMENT = 8/64.',
    "technique": 'Lean 4 proof (Nat bit-mask lemmas, omega) + exact differential hx_unit vs compiled Lean model',
}


def main(argv=None):
    return unit.main(Spec(), argv)
