"""Shared driver of the whole-collector checks C01, C02, C03, C04, C09 (package gcmon).

One set of GC runs (vlib/gcrun.py suites, cached under build/gcrun-cache) is shared by the checks; every
verdict is the Lean monitor's (`gcm`, lean/Driver/GCMon); each check keeps the verdict keys of its own
property, re-evaluates them with an independent Python oracle on what the implementation printed, and
runs its dedicated corpus programs (one per KNOWN defect, reported under a stable `gc:<name>` key)."""
import argparse, json, os, sys, time
from vlib import engine as E, gcrun as G
from vlib.engine import Violation

# keys that mean "the run itself died": every check loses its coverage of that trace
FATAL = ("gc:panic", "gc:crash", "gc:timeout")
PROG = ("prog:ill-formed", "prog:parse", "prog:err", "prog:no-op", "prog:ref-offset")


def P(plan, ops, **kw):
    return G.Program(plan, ops, **kw)


ANCHOR = ["alloc 0 0 1 0 8 0 Default 63", "vmroot 255 0", "root 0 63 null"]

# dedicated corpus programs: (stable key, property, Program, description)
CORPUS = [
    ("gc:nonmoving-default-trace", "C01",
     P("SemiSpace", ANCHOR + ["alloc 0 1 1 16 8 0 NonMoving 0", "gc 0 1", "snap"]),
     "F-A: a NonMoving object makes the GC of SemiSpace/GenCopy/MarkSweep/PageProtect panic (immixspace.rs trace_object has no DEFAULT_TRACE arm)"),
    ("gc:nonmoving-gen-lost", "C01",
     P("StickyImmix", ANCHOR + ["alloc 0 1 1 16 8 0 NonMoving 0", "alloc 0 2 1 16 8 0 Default 1", "write 0 1 0 2",
                               "root 0 1 null", "gc 0 0", "snap", "gc 0 1", "snap"]),
     "F-B: NonMoving objects of generational Immix plans are not remembered: an old->young reference held by one is lost in a nursery GC"),
    ("gc:compressor-immortal-fwd", "C01",
     P("Compressor", ANCHOR + ["alloc 0 1 0 64 8 0 Default 5", "root 0 5 null", "alloc 0 2 1 16 8 0 Immortal 0",
                              "alloc 0 3 1 16 8 0 Default 1", "write 0 2 0 3", "root 0 1 null", "gc 0 1", "snap"]),
     "F-C: Compressor does not forward references held by Immortal / NonMoving objects"),
    ("gc:markcompact-empty", "C01",
     P("MarkCompact", ["alloc 0 0 0 8 8 0 Default 0", "root 0 0 null", "gc 0 1", "snap"]),
     "F-H: a MarkCompact GC with no survivor in the mark-compact space panics in compact()"),
    ("gc:markcompact-nonmoving-dead", "C01",
     P("MarkCompact", ANCHOR + ["alloc 0 1 0 992 8 0 NonMoving 34", "root 0 34 null", "gc 0 1", "snap"]),
     "NEW: MarkCompact: the GC after a NonMoving object died panics (immixspace.rs:1006 SweepChunk on an unallocated chunk / blockpageresource.rs:171 committed-pages underflow) or crashes"),
    ("gc:concimmix-nonmoving-not-reset", "C02",
     P("ConcurrentImmix", ANCHOR + ["alloc 0 1 8 0 16 0 NonMoving 26", "alloc 0 2 2 4048 64 40 Default 26", "gc 0 1",
                                   "alloc 0 3 64 15456 8 24 NonMoving 22", "alloc 0 4 64 3552 16 0 NonMoving 21",
                                   "alloc 0 5 4 15936 64 0 NonMoving 13", "snap"], heap=12 << 20, workers=4),
     "NEW: concurrent_immix_mutator_release (src/plan/concurrent/immix/mutator.rs:25) resets only the Default Immix allocator and never calls common_release_func: the mutator's NonMoving ImmixAllocator keeps bump-allocating into a block the GC swept and put on the reusable list, so a later NonMoving allocation is handed memory that overlaps a live object allocated since the pause"),
    ("gc:bump-align-leak", "C03",
     P("Immix", ANCHOR + ["alloc 0 1 0 32704 64 8 Immortal 1", "stats"]),
     "NEW: BumpAllocator::acquire_block sizes the block from `size` without the alignment slack: alloc(32744, align 64, offset 8, Immortal) never fits its fresh 32 KB block, leaks one block per retry until the heap is exhausted, calls out_of_memory ~1000 times and returns null (NoGC: `GC triggered in nogc` panic)"),
    ("gc:pin-panics", "C04",
     P("SemiSpace", ANCHOR + ["alloc 0 1 0 16 8 0 Default 1", "pin 1", "snap"]),
     "F-G: pin_object on a CopySpace / MarkCompact / Compressor object panics instead of returning false"),
]

def _load(name):
    p = os.path.join(os.path.dirname(os.path.abspath(__file__)), "data", name)
    return G.Program.from_json(json.load(open(p)))


# schedule dependent (a race between the concurrent marker and the allocating mutator: fails in roughly 1 of 3 runs on a
# loaded machine, 3 of 3 on an idle one); the program is the prefix of a generated C09 cycle program, not minimised
CORPUS.append(("gc:concimmix-nonmoving-lost-in-marking", "C01", _load("concimmix_nonmoving_lost.json"),
               "NEW: ConcurrentImmix: a NonMoving object allocated (into a reused block of the non-moving ImmixSpace) between the InitialMark and the "
               "FinalMark pause of a concurrent cycle is reclaimed by that cycle although a mutator root slot holds it: after the FinalMark pause the root "
               "points to memory without VO bit (`roots=0.11:!800006a1a38`), the object is gone (`gc:lost-object`)"))

KEYS = {
    "C01": ("gc:dup-id", "gc:extra-object", "gc:lost-object", "gc:size-mismatch", "gc:payload", "gc:field-mismatch",
            "gc:root-mismatch"),
    "C02": ("gc:overlap-fresh", "gc:overlap-live", "gc:overlap-snap"),
    "C03": ("gc:misaligned", "gc:size", "gc:not-in-mmtk", "gc:not-zeroed", "gc:wrong-space", "gc:null-no-oom", "gc:oom"),
    "C04": ("gc:moved", "gc:immortal-died", "gc:pin-panics"),
    "C09": ("gc:floor", "gc:oom"),
}
ORACLES = {
    "C01": lambda tr: G.oracle_c01(tr),
    "C02": lambda tr: [v for v in G.oracle_allocs(tr) if v[1] in KEYS["C02"]],
    "C03": lambda tr: [v for v in G.oracle_allocs(tr) if v[1] in KEYS["C03"]],
    "C04": lambda tr: G.oracle_c04(tr),
    "C09": lambda tr: G.oracle_c09(tr),
}


def trace_payload(tr, idx):
    lo = max(0, idx - 3)
    return {"program": tr.program.to_json(), "failing_pair": list(tr.pairs[idx]) if 0 <= idx < len(tr.pairs) else None,
            "context": [[o, r[:300]] for o, r in tr.pairs[lo:idx + 1]], "rc": tr.rc, "stderr": tr.stderr_tail[-400:]}


def stats_of(pid, traces):
    """evaluations / non-trivial counts / distribution for one property over the monitored traces"""
    ev, nontriv, dist = 0, set(), {}
    bump = lambda k, n=1: dist.__setitem__(k, dist.get(k, 0) + n)
    for tr in traces:
        p = tr.program
        bump(f"plan:{p.plan}")
        bump(f"workers:{p.workers}")
        bump(f"fs:{p.fs}")
        bump(f"kind:{p.tag}")
        gcs = 0
        for op, res in tr.pairs:
            t = op.split()
            if t[0] == "snap" and res.startswith("snap"):
                n = res.count(";") + 1 if "objs=" in res and not res.endswith("objs=") else 0
                bump("snapshots")
                bump("snapshot_objects", n)
                g = int(G._GCS.search(res).group(1))
                if pid in ("C01", "C04"):
                    ev += 1
                    if n > 1 and g > 0:
                        nontriv.add((p.plan, p.workers, p.tag, g, n))
                gcs = max(gcs, g)
            elif t[0] == "alloc":
                bump("allocs")
                if res.startswith("a="):
                    bump(f"sem:{t[7]}")
                    if pid in ("C02", "C03"):
                        ev += 1
                        kv = dict(x.split("=", 1) for x in res.split())
                        if pid == "C03":
                            nontriv.add((p.plan, t[7], kv["sz"], t[5], t[6]))
                        elif kv["gcs"] != "0":
                            nontriv.add((p.plan, p.workers, kv["a"]))
            elif t[0] == "stats" and pid == "C09" and p.mode:
                ev += 1
                nontriv.add((p.plan, p.workers, res.split()[0]))
            elif t[0] == "ismo" and pid == "C04":
                ev += 1
        bump("pauses", gcs)
    return ev, len(nontriv), dist


def samples_of(traces, n=3):
    out = []
    for tr in traces[:: max(1, len(traces) // n)][:n]:
        out.append({"plan": tr.program.plan, "workers": tr.program.workers, "kind": tr.program.tag, "ops": len(tr.program.ops),
                    "pairs": [[o, r[:160]] for o, r in tr.pairs[8:12]],
                    "last": [tr.pairs[-2][0], tr.pairs[-2][1][:160]] if len(tr.pairs) > 1 else None})
    return out


def run_check(pid, argv, modules, theorems, suite, rule, assumptions, malformed=True):
    ap = argparse.ArgumentParser()
    ap.add_argument("--tier", default=os.environ.get("VERIF_TIER", "quick"))
    ap.add_argument("--seed", type=int, default=int(os.environ.get("VERIF_SEED", "20260921")))
    ap.add_argument("--replay")
    a = ap.parse_args(argv)
    t0 = time.time()
    violations = []
    lean = E.lean_check(modules, theorems, fresh=False)
    lean["targets"] = modules
    if not lean["ok"]:
        violations.append(Violation("proof-broken", f"Lean obligations no longer check: {lean['failures']}", None, None, None,
                                    False, broken=str([f.get("theorem") or f["kind"] for f in lean["failures"]])))
    try:
        G.hx_gc_exe("fs_main", False)
        G.hx_gc_exe("fs_main", True)
    except RuntimeError as e:
        violations.append(Violation("harness-build-failed", str(e)[-1500:], found_input=False, broken="hx_gc build"))
        return E.finish(pid, a.tier, a.seed, t0, lean, {}, violations)
    keys = KEYS[pid]
    if a.replay:
        d = json.load(open(a.replay))
        prog = G.Program.from_json(d["case"]["program"])
        tr = G.run(prog)
        G.monitor([tr])
        hit = [v for v in tr.verdicts if v[1] in keys + FATAL] + ORACLES[pid](tr)
        print("REPLAY:", f"violation reproduced: {hit[0]}" if hit else "no violation on this tree")
        return 1 if hit else 0
    traces, cinfo = G.cached_traces(suite, a.seed, a.tier)
    # ---- verdicts of the Lean monitor on the shared runs
    seen = set()
    for tr in traces:
        for idx, key, detail in tr.verdicts or []:
            if key in keys or key in FATAL or key in PROG:
                k2 = key if not key.startswith("prog:") else "machinery:" + key
                if (k2, tr.program.plan) in seen:
                    continue
                seen.add((k2, tr.program.plan))
                what = f"{tr.program.plan} w={tr.program.workers} {tr.program.tag}: {key} {detail} at `{tr.pairs[idx][0] if idx >= 0 else '?'}`"
                violations.append(Violation(k2, what, trace_payload(tr, idx), tr.pairs[idx][1][:400] if idx >= 0 else None,
                                            f"viol {key} {detail}", True))
                break
    # ---- independent oracle on what the implementation printed; must agree with the monitor
    disagreements = 0
    for tr in traces:
        mine = {(i, k) for i, k, _ in (tr.verdicts or []) if k in keys}
        theirs = {(i, k) for i, k, _ in ORACLES[pid](tr) if k in keys}
        # after the first violation in a trace the two shadow heaps may legitimately drift: compare the first
        fm = min(mine) if mine else None
        ft = min(theirs) if theirs else None
        if fm != ft:
            disagreements += 1
            violations.append(Violation("monitor-vs-oracle", f"{tr.program.plan} w={tr.program.workers} {tr.program.tag}: Lean monitor says {fm}, Python oracle says {ft}",
                                        trace_payload(tr, (ft or fm)[0]), None, None, ft is not None,
                                        broken=None if ft is not None else "monitor/oracle agreement"))
    # ---- dedicated corpus programs of this property (known defects, stable keys)
    corpus = [(k, prog, desc) for k, prop, prog, desc in CORPUS if prop == pid]
    ctr = G.run_many([p for _, p, _ in corpus], jobs=4) if corpus else []
    if ctr:
        G.monitor(ctr)
    corpus_report = []
    for (k, prog, desc), tr in zip(corpus, ctr):
        bad = [v for v in tr.verdicts if v[1] in keys or v[1] in FATAL or v[1] == "gc:panic-op"]
        corpus_report.append({"key": k, "plan": prog.plan, "still_fails": bool(bad), "observed": bad[0][1] + " " + bad[0][2][:120] if bad else None})
        if bad:
            idx = bad[0][0]
            violations.append(Violation(k, f"{desc} — observed {bad[0][1]} at `{tr.pairs[idx][0]}` -> `{tr.pairs[idx][1][:200]}`",
                                        trace_payload(tr, idx), tr.pairs[idx][1][:400], f"viol {bad[0][1]} {bad[0][2]}", True))
    # ---- malformed stream: the monitor must answer every line and never lose sync
    mal_ok = None
    if malformed:
        ls = ["gcm reset", "gcm res ok", "gcm op", "gcm op snap", "gcm res snap gcs=x roots= objs=1:zz", "gcm op alloc 0 0", "gcm res a=0x10",
              "gcm op alloc 0 5 1 8 8 0 Default 0", "gcm res a=0x20000000008 r=0x20000000010 sz=40 space=immix zero=1 inmmtk=1 gcs=0",
              "gcm op write 0 7 0 9", "gcm res ok", "gcm op snap", "gcm res snap gcs=0 roots=0.0:0| objs=0:10:40:D:1:-;0:18:40:D:1:-",
              "gcm bogus", "gcm op root 0 0 77", "gcm res ok", "gcm op stats", "gcm res used=abc"]
        outs, rc, _ = E.run_lines(E.model_exe(), ls)
        mal_ok = rc == 0 and len(outs) == len(ls) and all(o == "ok" or o.startswith("viol ") or o == "bad-op" for o in outs) \
            and sum(o.startswith("viol ") for o in outs) >= 7
        if not mal_ok:
            violations.append(Violation("monitor-malformed-stream", f"the monitor mishandles a malformed stream: rc={rc} {outs}", ls, None, outs, False,
                                        broken="monitor robustness"))
    ev, nontriv, dist = stats_of(pid, traces)
    corr = {
        "evaluations": ev, "distinct_nontrivial": nontriv, "programs": len(traces),
        "traces_validated_against_impl": len(traces) + len(ctr),
        "ops_executed": sum(len(t.pairs) for t in traces), "rule": rule, "distribution": dist, "samples": samples_of(traces),
        "monitor_oracle_disagreements": disagreements, "corpus": corpus_report, "malformed_stream_ok": mal_ok,
        "trace_cache": cinfo, "verdict_keys": list(keys) + list(FATAL),
        "runs_died": sum(1 for t in traces if t.rc != 0),
    }
    return E.finish(pid, a.tier, a.seed, t0, lean, corr, violations, level="proof (of the monitor's model; partial w.r.t. the code)",
                    assumptions=assumptions,
                    trusted=["Lean 4.33.0 kernel", "axioms ⊆ {propext, Classical.choice, Quot.sound} (audited per theorem this run)",
                             "the shadow-heap model + snapshot monitor are the specification; real collections are sampled by the runs recorded below",
                             "hx_gc / VerifVM binding (harness/src/vm.rs, rt.rs, bin/hx_gc.rs) reports real memory faithfully",
                             "vlib/gcrun.py only transports lines between hx_gc and the Lean monitor"])
