"""Shared by C26 / C27: python shadows of the free list used to *generate* histories and to evaluate
the property statement on the implementation's answers.  Neither is the Lean model.

`Ordered` — generator shadow: per-head ordered free lists (add at front, first fit), precise enough
to predict which unit `alloc` returns so that later `free`s hit allocated run starts.
`Spec` — oracle: the abstract runs partition (unordered; `alloc` may return *any* fitting free run
of the head).  It is driven by what the implementation answered.
"""


def initial_runs(kind, units, grain):
    """Initial free runs [(start, len)] of a fresh list (ia: initialize_heap; rm: one grow(units))."""
    runs = []
    if kind == "ia":
        off = units % grain
        cur = units - off
        if off > 0:
            runs.append((cur, off))
        cur -= grain
        while cur >= 0:
            runs.append((cur, grain))
            cur -= grain
    else:
        g = min(grain, units)
        cur = units - g
        while cur >= 0 and g > 0:
            runs.append((cur, g))
            cur -= g
    return runs          # in add_to_free order (each is pushed at the front)


class Ordered:
    def __init__(self, kind, units, grain, heads):
        self.units, self.heads = units, heads
        self.run = {}                     # start -> [len, owner]  owner None = allocated, else head k
        self.lists = {k: [] for k in range(heads)}
        self.unc = set()
        covered = set()
        for s, l in initial_runs(kind, units, grain):
            self.run[s] = [l, 0]
            self.lists[0].insert(0, s)
            covered.update(range(s, s + l))
        for u in range(units):            # units never put on a list behave as allocated singles
            if u not in covered:
                self.run[u] = [1, None]

    def alloc(self, k, n):
        for s in self.lists[k]:
            if self.run[s][0] >= n:
                return self._take(k, s, n)
        return -1

    def _take(self, k, s, n):
        l = self.run[s][0]
        if l > n:
            self.run[s] = [n, k]
            self.run[s + n] = [l - n, k]
            self.lists[k].insert(0, s + n)
        self.lists[k].remove(s)
        self.run[s][1] = None
        return s

    def afu(self, k, n, u):
        r = self.run.get(u)
        if r and r[1] == k and r[0] >= n:
            return self._take(k, u, n)
        return -1

    def left_of(self, u):
        for s, (l, o) in self.run.items():
            if s + l == u:
                return s
        return None

    def free(self, k, u):
        """-> (own size, merged size, crossed another head?)"""
        l = self.run[u][0]
        start, end, cross = u, u, False
        lf = self.left_of(u)
        if u not in self.unc and lf is not None and self.run[lf][1] is not None:
            start = lf
        rt = u + l
        if rt not in self.unc and rt in self.run and self.run[rt][1] is not None:
            end = rt
        for x in {start, end} - {u}:
            if self.run[x][1] != k:
                cross = True
            self.lists[self.run[x][1]].remove(x)
        total = (end + self.run[end][0]) - start
        for x in {u, end} - {start}:
            del self.run[x]
        self.run[start] = [total, k]
        self.lists[k].insert(0, start)
        return l, total, cross

    def allocated(self):
        return [s for s, (l, o) in self.run.items() if o is None and s < self.units]


class Spec:
    """The property's abstract state, advanced with the implementation's own answers."""

    def __init__(self, kind, units, grain, heads, grown=True):
        self.units, self.heads = units, heads
        self.run = {}                      # start -> [len, owner]
        self.unc = set()
        self.ever_split_or_merged = False
        if grown:
            self.add_initial(kind, units, grain, 0)

    def add_initial(self, kind, units, grain, lo):
        covered = set()
        for s, l in initial_runs(kind, units - lo, grain) if kind == "rm" else initial_runs(kind, units, grain):
            self.run[s + lo] = [l, 0]
            covered.update(range(s + lo, s + lo + l))
        for u in range(lo, units):
            if u not in covered:
                self.run[u] = [1, None]
        self.units = units

    def left_of(self, u):
        for s, (l, o) in self.run.items():
            if s + l == u:
                return s
        return None

    def has_fit(self, k, n):
        return any(o == k and l >= n for l, o in self.run.values())

    def take(self, k, s, n):
        l = self.run[s][0]
        if l > n:
            self.run[s + n] = [l - n, k]
        self.run[s] = [n, None]

    def free(self, k, u):
        """-> (own, merged, crossed)"""
        l = self.run[u][0]
        start, end, cross = u, u, False
        lf = self.left_of(u)
        if u not in self.unc and lf is not None and self.run[lf][1] is not None:
            start = lf
        rt = u + l
        if rt not in self.unc and rt in self.run and self.run[rt][1] is not None:
            end = rt
        for x in {start, end} - {u}:
            if self.run[x][1] != k:
                cross = True
        total = (end + self.run[end][0]) - start
        for x in {u, end} - {start}:
            del self.run[x]
        self.run[start] = [total, k]
        return l, total, cross


def install_hang_guard(batch_timeout=45, case_timeout=3):
    """The engine gives a batch 1800 s; a free-list bug can make `alloc` loop forever on the real
    code.  Bound it: if the batch does not finish, run the cases one by one with a short timeout
    and answer `hang` for the ops of a case that does not finish (model and oracle then flag it)."""
    from vlib import engine as E
    if getattr(E, "_fl_guard", False):
        return
    orig_lines = E.run_lines

    def run_cases(exe, cases, timeout=600, env=None):
        all_lines, spans = [], []
        for c in cases:
            ls = c.lines()
            spans.append((len(all_lines), len(all_lines) + len(ls)))
            all_lines += ls
        outs, rc, err = orig_lines(exe, all_lines, timeout=min(timeout, batch_timeout), env=env)
        k = lambda c, o: o[len(c.pre):]
        if rc == 0 and len(outs) == len(all_lines):
            return [k(c, outs[a:b]) for (a, b), c in zip(spans, cases)]
        res = []
        for c in cases:
            o, rc1, err1 = orig_lines(exe, c.lines(), timeout=case_timeout, env=env)
            if rc1 != 0 or len(o) != len(c.lines()):
                o = o + [("hang" if rc1 == -9 else f"crash:rc={rc1}")] * (len(c.lines()) - len(o))
            res.append(k(c, o))
        return res

    E.run_cases = run_cases
    E._fl_guard = True
