"""C13 (part `weak rounds`, package gcweak; the final checks/C13.py merges it with package sched's ordering part) —
VM weak-reference processing rounds run until the closure is complete: ephemeron tables needing 0..k extra
rounds on every collecting plan; the real event log of every pause is replayed against the sentinel protocol model
`Mmtk.WeakRounds` by the Lean monitor, the surviving table and the kept-alive objects are compared with the model."""
import random, re
from checks import gcweak_common as W
from checks.C06 import RefModel, GENERATIONAL
from vlib import gcrun as G

PLANS = [p for p in G.PLANS if p != "NoGC"]
MODULES = ["MmtkModel.Props.C13Weak"]
THEOREMS = ["Mmtk.WeakRounds.round_starts_drained", "Mmtk.WeakRounds.call_enabled_drained", "Mmtk.WeakRounds.sentinel_reinstalled_iff",
            "Mmtk.WeakRounds.rounds_until_false", "Mmtk.WeakRounds.no_call_after_false", "Mmtk.WeakRounds.rounds_bound",
            "Mmtk.WeakRounds.step_inv", "Mmtk.WeakRounds.exec_inv", "Mmtk.WeakRounds.step_of_not_enabled"]
KEYS = ("gc:weak-not-drained", "gc:weak-sentinel", "gc:weak-rounds", "gc:weak-next-bucket", "gc:forward-weak", "gc:ephdump-mismatch",
        "gc:enum-dup", "gc:enum-missing", "gc:enum-extra",
        "gc:dup-id", "gc:extra-object", "gc:lost-object", "gc:size-mismatch", "gc:payload", "gc:field-mismatch", "gc:root-mismatch")
NEVER = ("immortal", "code_space", "large_code_space", "ro_space", "vm_space")
ST_VMREF, ST_CALCFWD, ST_VMREFFWD = 11, 12, 16
META_PART = {
    "text": "Sentinel protocol model (Model/WeakRounds.lean, transcribed from weakref.rs / work_bucket.rs / scheduler.rs): one bucket, any number of workers; actions start / spawn / finish of closure packets, `lastParked` (schedule_sentinels, else the next bucket opens), `callBegin`, `callEnd ret` (re-install iff ret). For every interleaving: every `process_weak_refs` call begins on a drained bucket (`round_starts_drained`, `call_enabled_drained`), the sentinel is re-installed iff the call returned true (`sentinel_reinstalled_iff`), all answers but the last are true, no call follows a false, the next bucket opens only after a false (`rounds_until_false`, `no_call_after_false`), #calls <= #true + 1 (`rounds_bound`); an action that is not enabled changes nothing (`step_of_not_enabled`). Real collections: programs with ephemeron tables (chains of depth 0..6, shared values, keys reachable only through their own value, dropped chains, Los / immortal keys, garbage) on the 10 collecting plans x {1,4} workers, full-heap GCs and nursery GCs; the in-core event log of every pause is translated into the model's actions (packet pushes / starts / ends of the VMRefClosure stage, BucketSchedSentinel, BucketSetSentinel, VmProcessWeak) and replayed by the Lean monitor, every action must be enabled; the answers must be those the ephemeron table needs (depth + 1 calls), `forward_weak_refs` exactly once iff the plan needs forwarding after liveness, after the VMRefForwarding bucket opened and with no CalculateForwarding packet queued or running; `ephdump`, `enum` and the snapshots are compared with the model; an independent Python oracle re-checks the log (no packet of stages 2..11 pushed-but-unfinished when VMProcessWeakRefs starts).",
    "note": "Level: proof of the round protocol of one bucket for all schedules, partial w.r.t. the code (event-log conformance is sampled); the scheduler-wide ordering theorems are package sched's. Stage indices are those of the harness feature set (vo_bit: VMRefClosure = 11).",
    "technique": "Lean 4 proof (protocol invariant over all interleavings) + run-time replay of real event logs against the model (every action must be enabled) + independent oracle",
    "category": "proof",
}
PRE = ("cfg events 1",)


class EGen:
    def __init__(self, rnd, plan, info):
        self.r, self.plan, self.info = rnd, plan, info
        self.ops, self.next = [], 0
        self.sh = G.Shadow()

    def alloc(self, nf, size, sem, slot):
        i = self.next
        self.next += 1
        payload = max(0, size - (self.info["refoff"] + 24 + 8 * nf))
        real = max(32, (self.info["refoff"] + 24 + 8 * nf + payload + 7) // 8 * 8)
        if sem == "Default" and real + 8 > self.info["maxnonlos"]:
            sem = "Los"
        self.ops.append(f"alloc 0 {i} {nf} {payload} 8 0 {sem} {slot}")
        self.sh.alloc(G.mut_key(0, slot), i, nf, real, sem)
        return i

    def root(self, slot, v):
        self.ops.append(f"root 0 {slot} {'null' if v is None else v}")
        self.sh._set_root(G.mut_key(0, slot), v)

    def vmroot(self, k, v):
        self.ops.append(f"vmroot {k} {'null' if v is None else v}")
        self.sh._set_root(("vm", k), v)

    def write(self, s, f, d):
        self.ops.append(f"write 0 {s} {f} {'null' if d is None else d}")
        self.sh.write(s, f, d)

    def gc(self, exhaustive=True):
        self.ops += ["events", f"gc 0 {int(exhaustive)}", "ptypes", "events", "ephdump", "enum"]


def gen_eph(rnd, plan, info, heap, workers, nursery=False):
    g = EGen(rnd, plan, info)
    r = rnd
    a = g.alloc(1, 40, "Default", 63)
    g.vmroot(G.ANCHOR_KEY, a)
    g.root(63, None)
    sems = ["Default", "Default", "Default"] + ([] if nursery else ["Los"])
    vm = 0
    keyroots = []
    for rd in range(r.randrange(2, 4)):
        for c in range(r.randrange(2, 6)):
            depth = r.choice([0, 1, 1, 2, 3, 4, 6])
            # a chain k0 => v0 = k1 => v1 = k2 … (entry i is (k_i, k_{i+1}))
            nodes = []
            for d in range(depth + 1):
                sem = r.choice(sems) if d else r.choice(sems + (["Immortal"] if r.random() < 0.1 and not nursery and plan not in ("Compressor", "MarkCompact") else []))
                nf = 0 if sem == "Immortal" else r.choice([0, 1, 2])
                x = g.alloc(nf, r.choice([32, 64, 200]) if sem != "Los" else r.choice([20000, 40000]), sem, 10 + d % 8)
                if g.sh.objs[x]["nf"] and r.random() < 0.5:          # a child only the value holds
                    ch = g.alloc(0, r.choice([32, 128]), "Default", 30)
                    g.write(x, 0, ch)
                    g.root(30, None)
                nodes.append(x)
            for d in range(depth):
                g.ops.append(f"ephemeron {nodes[d]} {nodes[d + 1]}")
            u = r.random()
            if u < 0.6 and nodes:                                       # the head key is strongly reachable
                g.vmroot(vm % 200, nodes[0]); keyroots.append(vm % 200); vm += 1
            elif u < 0.75 and depth >= 1 and g.sh.objs[nodes[1]]["nf"] >= 2 and g.sh.objs[nodes[0]]["sem"] != "Immortal":
                g.write(nodes[1], 1, nodes[0])                          # the key is reachable only through its own value: dropped
            # else: the whole chain is unreachable
            if depth >= 2 and r.random() < 0.3:                         # a value shared by two entries
                g.ops.append(f"ephemeron {nodes[0]} {nodes[2]}")
            for d in range(depth + 1):
                g.root(10 + d % 8, None)
            if r.random() < 0.5:
                g.alloc(0, r.choice([64, 4000]), "Default", 31)         # garbage
        g.gc(exhaustive=not (nursery and r.random() < 0.5))
        for k in r.sample(keyroots, len(keyroots) // 3):               # some head keys die: their chains are dropped next time
            g.vmroot(k, None)
            keyroots.remove(k)
        if r.random() < 0.5:
            g.gc(True)
    g.gc(True)
    g.ops.append("snap")
    return G.Program(plan, g.ops, heap=heap, workers=workers, tag="eph-nursery" if nursery else "eph")


def make_suite(seed, tier):
    progs = []
    thorough = tier == "thorough"
    for plan in PLANS:
        info = G.plan_info(plan, "fs_main")
        for w in (1, 4):
            for rep in range(5 if thorough else 1):
                rnd = random.Random(f"{seed}/C13/{plan}/{w}/{rep}")
                ys = rnd.randrange(1, 1 << 30) if (thorough or w == 4) else 0
                ps = [gen_eph(rnd, plan, info, 64 * G.MB, w)]
                if plan in GENERATIONAL and (w == 1 or thorough):
                    ps.append(gen_eph(rnd, plan, info, 64 * G.MB, w, nursery=True))
                for p in ps:
                    p.yield_seed = ys
                progs += ps
    return progs


def _check_log(evs, weak_ty, fwd_after):
    """independent look at one pause's log. Returns (answers, problems)"""
    probs, rets = [], []
    open_pkts = {}          # (pid, type) -> [stage, …] pushed and not yet ended, stages 2..11
    running = {}            # tid -> (pid, type, stage)
    pend = {}               # (pid, type) -> [stage, …] pushed and not yet started
    opened, fwd, sent_after = set(), 0, None
    q12 = 0
    for seq, tid, kind, a, b in evs:
        ty, stg = b >> 8, b & 255
        if kind in (13, 21):
            pend.setdefault((a, ty), []).append(stg)
            if ty not in weak_ty and 2 <= stg <= ST_VMREF:
                open_pkts.setdefault((a, ty), []).append(stg)
            if stg == ST_CALCFWD:
                q12 += 1
        elif kind == 26:
            st = pend.get((a, ty), [])
            stage = st.pop(0) if st else 255
            running[tid] = (a, ty, stage)
            if ty in weak_ty:
                left = {k: v for k, v in open_pkts.items() if v}
                if left:
                    probs.append((seq, "gc:weak-not-drained", f"VMProcessWeakRefs starts while packets of stages <= VMRefClosure are pushed but unfinished: {list(left.items())[:3]}"))
        elif kind == 27:
            p = running.pop(tid, None)
            if p:
                if p[2] == ST_CALCFWD:
                    q12 -= 1
                l = open_pkts.get((p[0], p[1]))
                if l and p[1] not in weak_ty:
                    l.pop(0)
                if p[1] in weak_ty and rets and rets[-1] and sent_after is not True:
                    probs.append((seq, "gc:weak-sentinel", "returned true, sentinel not re-installed"))
        elif kind == 15:
            opened.add(a)
            if a > ST_VMREF and ST_VMREF in opened and rets and rets[-1]:
                probs.append((seq, "gc:weak-next-bucket", f"bucket {a} opened after a true answer"))
            if a > ST_VMREF and ST_VMREF in opened and not rets:
                probs.append((seq, "gc:weak-next-bucket", f"bucket {a} opened although process_weak_refs was never called"))
        elif kind == 72:
            if b != len(rets):
                probs.append((seq, "gc:weak-rounds", f"round index {b} != {len(rets)}"))
            if rets and not rets[-1]:
                probs.append((seq, "gc:weak-rounds", "called again after a false answer"))
            rets.append(a == 1)
            sent_after = False
        elif kind == 18 and stg == ST_VMREF and ty in weak_ty and ST_VMREF in opened:
            if not (rets and rets[-1]) or sent_after:
                probs.append((seq, "gc:weak-sentinel", "sentinel installed without a true answer"))
            sent_after = True
        elif kind == 73:
            fwd += 1
            if ST_VMREFFWD not in opened or q12 > 0:
                probs.append((seq, "gc:forward-weak", f"forward_weak_refs too early (CalculateForwarding pending {q12})"))
    if ST_VMREF in opened and fwd != (1 if fwd_after else 0):
        probs.append((evs[-1][0] if evs else 0, "gc:forward-weak", f"forward_weak_refs called {fwd} times"))
    return rets, probs, ST_VMREF in opened


def oracle(trace):
    m = RefModel(trace.program.plan in GENERATIONAL)
    out, gcs = [], 0
    eph, dropped, expect = [], [], None
    weak_ty, fwd_after, collects, space, ref = set(), False, True, {}, {}
    for idx, (op, res) in enumerate(trace.pairs):
        t, r = op.split(), res.split()
        if not r or r[0].startswith("crash:") or r[0] in ("fatal", "timeout"):
            continue
        g = G._GCS.search(res)
        if g and int(g.group(1)) != gcs:
            gcs = int(g.group(1))
            nursery = m.generational and not (t[0] == "gc" and t[2] == "1")
            m.gc(nursery=nursery)
            # the ephemeron fixpoint on top of the marked set
            marked, pend, rets = set(m.alive), list(eph), []
            live = lambda x: x in marked          # ObjectReference::is_reachable: the mark, also for immortal keys
            while True:
                now = [e for e in pend if live(e[0])]
                if not now:
                    rets.append(False)
                    break
                rets.append(True)
                pend = [e for e in pend if not live(e[0])]
                marked = m.closure(list(marked) + [v for _, v in now])
            m.alive = marked
            dropped += [e for e in eph if not live(e[0])]
            eph = [e for e in eph if live(e[0])]
            expect = rets
        k = t[0]
        if k == "constraints":
            fwd_after, collects = "fwdafterliveness=1" in r, "collects=1" in r
        elif k == "alloc" and r[0].startswith("a="):
            kv = dict(x.split("=", 1) for x in r if "=" in x)
            m.sh.apply(t, int(kv["sz"]))
            space[int(t[2])], ref[int(t[2])] = kv["space"], int(kv["r"], 16)
            if kv["space"] in NEVER:
                m.immortal.add(int(t[2]))
        elif k in ("root", "vmroot", "write", "destroy") and r[0] == "ok":
            m.sh.apply(t)
        elif k == "ephemeron" and r[0] == "ok":
            eph.append((int(t[1]), int(t[2])))
        elif k == "ptypes":
            for x in r[1:]:
                h, _, name = x.partition("=")
                if "::VMProcessWeakRefs<" in name:
                    weak_ty.add(int(h, 16))
        elif k == "ephdump":
            sh = lambda l: ",".join(f"{a}>{b}" for a, b in l)
            want = f"eph live={sh(eph)} dropped={sh(dropped)}"
            if res != want:
                out.append((idx, "gc:ephdump-mismatch", f"{res} expected {want}"))
        elif k == "events" and r[0] == "ev":
            evs = sorted(tuple(int(x) for x in e.split(":")) for e in r[1:] if e.count(":") == 4)
            rets, probs, staged = _check_log(evs, weak_ty, fwd_after)
            for seq, key, what in probs[:1]:
                out.append((idx, key, f"event {seq}: {what}"))
            if staged and not probs and expect is not None and rets != expect:
                out.append((idx, "gc:weak-rounds", f"answers {rets}, the ephemeron table needs {expect}"))
            expect = None
        elif k == "snap" and r[0] == "snap":
            e = G._oracle_snap(m.sh, res)
            if e:
                out.append((idx,) + e)
        elif k == "enum" and r[0] == "enum":
            ids = [int(e.split(":")[0]) for e in (r[1].split(",") if len(r) > 1 else []) if e]
            S = {i for i in m.sh.objs if ref.get(i) and (space.get(i) in NEVER or i >= m.born_before or i in m.alive)}
            if len(set(ids)) != len(ids):
                out.append((idx, "gc:enum-dup", "an id is enumerated twice"))
            elif S - set(ids):
                out.append((idx, "gc:enum-missing", f"id={min(S - set(ids))}"))
            elif not (m.generational and False) and set(ids) - S and _exact(trace, idx):
                out.append((idx, "gc:enum-extra", f"id={min(set(ids) - S)}"))
    return sorted(set(out))


def _exact(trace, idx):
    """the last pause before pair idx was a full-heap one"""
    gen = trace.program.plan in GENERATIONAL
    for op, res in reversed(trace.pairs[:idx]):
        t = op.split()
        if t[0] == "gc" and "gcs=" in res:
            return not gen or t[2] == "1"
    return True


def stats(traces):
    """evaluations = replayed pause logs + ephdump / enum / snapshot comparisons; non-trivial = a pause in which process_weak_refs
    was called >= 2 times (>= 1 extra round); distinct by (plan, workers, kind, pause, rounds)"""
    ev, nontriv, dist = 0, set(), {}
    bump = lambda k, n=1: dist.__setitem__(k, dist.get(k, 0) + n)
    for tr in traces:
        p = tr.program
        gcs = 0
        for op, res in tr.pairs:
            t, r = op.split(), res.split()
            g = G._GCS.search(res)
            if g:
                gcs = int(g.group(1))
            if t[0] == "events" and r and r[0] == "ev":
                n72 = [e.split(":") for e in r[1:] if e.split(":")[2:3] == ["72"]]
                n73 = sum(1 for e in r[1:] if e.split(":")[2:3] == ["73"])
                if n72:
                    ev += 1
                    bump(f"rounds:{len(n72)}")
                    bump("events_replayed", len(r) - 1)
                    bump("forward_weak_refs", n73)
                    if len(n72) >= 2:
                        nontriv.add((p.plan, p.workers, p.tag, gcs, len(n72)))
            elif t[0] in ("ephdump", "enum", "snap"):
                ev += 1
            elif t[0] == "ephemeron":
                bump("entries")
    return ev, len(nontriv), dist


CORPUS = []
MALFORMED = ["gcw reset", "gcw res ok", "gcw op events", "gcw res ev 1:2:3", "gcw op ptypes", "gcw res ptypes zz=mmtk::VMProcessWeakRefs<x> 10=a::b",
             "gcw op events", "gcw res ev 5:101:15:11:0 6:101:72:1:0", "gcw op events", "gcw res ev 1:100:18:1:4107 5:101:15:11:0 6:101:15:12:0",
             "gcw op ephdump", "gcw res eph live=1>2 dropped=", "gcw op ephemeron 1 x", "gcw res ok", "gcw bogus"]


RULE = "one evaluation = one pause whose event log was replayed against the protocol model (+ its ephdump / enum / snapshot comparisons); non-trivial = a pause with >= 2 process_weak_refs calls (the table needed >= 1 extra round); distinct by (plan, workers, kind, pause, rounds)"
ASSUMPTIONS = ["event kinds and logging discipline as documented in harness/HX_GC_EVENTS.md (producer events before, consumer events after the operation); stage indices of the harness feature set (VMRefClosure = 11, CalculateForwarding = 12, VMRefForwarding = 16)",
               "VerifVM's process_weak_refs / forward_weak_refs behave as documented in harness/HX_GC.md (ephemeron table)",
               "every pause of these programs is a user GC; the event log is drained before and after each"]
TRUSTED = W.TRUSTED
LEVEL = W.LEVEL


def run(tier="quick", seed=20260921):
    """-> (lean dict of engine.lean_check, correspondence dict, [engine.Violation]); writes no evidence, never exits.
    Violation keys are the stable keys of this part (KEYS + gc:panic / gc:crash / gc:timeout / machinery:*)."""
    return W.run_parts("C13", tier, seed, MODULES, THEOREMS, KEYS, make_suite, oracle, CORPUS, stats, RULE,
                       malformed=MALFORMED, pre=PRE)


def main(argv=None):
    """stand-alone run for debugging: prints a summary, writes nothing"""
    import argparse, os
    ap = argparse.ArgumentParser()
    ap.add_argument("--tier", default=os.environ.get("VERIF_TIER", "quick"))
    ap.add_argument("--seed", type=int, default=int(os.environ.get("VERIF_SEED", "20260921")))
    ap.add_argument("--replay")
    a = ap.parse_args(argv)
    if a.replay:
        return W.run_parts("C13", a.tier, a.seed, MODULES, THEOREMS, KEYS, make_suite, oracle, CORPUS, stats, RULE,
                           malformed=MALFORMED, pre=PRE, replay=a.replay)
    lean, corr, violations = run(a.tier, a.seed)
    for v in violations:
        print(f"VIOLATION(part weak) key={v.key}: {v.what[:300]}")
    print(f"C13/weak: {'FAIL' if violations else 'ok'} obligations={lean.get('obligations')} discharged={lean.get('discharged')} "
          f"evaluations={corr.get('evaluations')} distinct_nontrivial={corr.get('distinct_nontrivial')} programs={corr.get('programs')}")
    return 1 if violations else 0


if __name__ == "__main__":
    import sys
    sys.exit(main(sys.argv[1:]))
