"""C08 — interior-pointer and conservative lookups resolve to the right object: probe lists (object starts, references,
interior words, last words, one-past-end, gaps, page / chunk edges, space edges, wild addresses) x search limits after
every forced exhaustive GC, `ismo` / `findint` compared with `Mmtk.IntPtr.findFromInternal` evaluated by the Lean
monitor on its valid-object set, and with the property statement by an independent oracle."""
import random, re
from checks import gcweak_common as W
from checks import C07
from vlib import gcrun as G

PLANS = list(G.PLANS)
THEOREMS = ["Mmtk.IntPtr.isMmtkObject_iff", "Mmtk.IntPtr.isMmtkObject_eq", "Mmtk.IntPtr.isMmtkObject_valid", "Mmtk.IntPtr.findPrev_spec",
            "Mmtk.IntPtr.findObject_spec", "Mmtk.IntPtr.findFromInternal_spec", "Mmtk.IntPtr.findLos_spec",
            "Mmtk.IntPtr.findLos_limit_partial", "Mmtk.IntPtr.los_limit_witness",
            "Mmtk.IntPtr.findLos_none_of_no_vo", "Mmtk.IntPtr.findLos_reads_mapped_only", "Mmtk.IntPtr.hoisted_reads_unmapped"]
KEYS = ("gc:findint-mismatch", "gc:ismo-missing", "gc:ismo-stale", "gc:findint-los-limit", "gc:findint-crash")
CHUNK = 1 << 22
USIZE_MAX = (1 << 64) - 1
BIG_LIMITS = (1 << 20, 1 << 28, 1 << 32, 1 << 40, USIZE_MAX)
LOS_NAMES = ("los", "pageprotect")
META = {
    "text": "Lookup model (Model/IntPtr.lean): `is_mmtk_object` (SFT dispatch + VO bit), the data-address view of `find_prev_non_zero_value_simple` on the VO bits with its mapped-grain cache, `vo_bit::find_object_from_internal_pointer` (+ `is_internal_ptr`), the per-policy wrappers (Immix / native mark-sweep cap the limit by the maximal object size, the empty SFT answers None) and the page walk of `LargeObjectSpace::find_object_from_internal_pointer`. Theorems for every bitmap: `isMmtkObject_iff` / `_valid` (Some(addr) iff the address is the reference of a valid object), `findPrev_spec` (nearest set bit at or below p, less than `limit` bytes below), `findFromInternal_spec` (with non-overlapping objects: o iff ref(o) <= p < start(o)+size(o) and p - ref(o) < n, else None), `findLos_spec` (first VO-set address of the nearest page >= align_down(p-n) with a non-zero first VO word, iff p is inside that object), `findLos_none_of_no_vo` (no VO bit at or below p's page: None for EVERY limit, no hypothesis on what is mapped — a stale pointer into the lowest large object), `findLos_reads_mapped_only` (memory safety of the page walk as non-interference: with grain-uniform mapping the answer does not depend on VO words of unmapped pages; `hoisted_reads_unmapped` = decide-witness that testing is_mapped once before the loop breaks it). Real heaps: after every forced exhaustive GC of generated programs on all 11 plans x {1,4} workers a probe list — per object: start, ref-8, ref, ref+8, a middle word, last word, one-past-end; gaps; page and chunk edges; 8, space start +-8, space end, usize::MAX & !7, side-metadata addresses, unaligned interior pointers; n in {1, 8, 9, size, 4096, 2^20}; stale pointers: for large objects that were swept (always the lowest-addressed one ever allocated, a few others) start / reference / middle / last word / next page x n in {2^20, 2^28, 2^32, 2^40, usize::MAX}, and addresses in the LOS above every live large object, with `ismapped` asked for every mmap grain the walk enters; program class los-stale (first a `rawalloc` = memory between alloc and post_alloc, no VO bit; then the lowest large object dies first, then all, then the pages are reused) — is sent as `ismo` / `findint`; a process that dies inside a `findint` is the violation gc:findint-crash (program = replay); the Lean monitor evaluates the model on its valid-object set (snapshot + never-collected objects) with the chunk map asked through `ismapped`, an independent Python oracle evaluates the property statement.",
    "note": "Level: proof of the lookup algorithm over arbitrary bitmaps, partial w.r.t. the code. Deviation kept under the stable key gc:findint-los-limit: the large-object space applies max_search_bytes to pages, so an interior pointer more than n bytes above the reference is still resolved (`los_limit_witness`, `findLos_limit_partial`). `is_mmtk_object` has the documented precondition addr != 0 and word-aligned (debug assertion): such addresses are only sent to `findint`.",
    "technique": "Lean 4 proof (search loops with explicit fuel, for all bitmaps) + exact differential of real lookups against the executable model + independent oracle",
    "category": "proof",
}


def _last_snap(ctx):
    for op, res in reversed(ctx.pairs):
        if op == "snap" and res.startswith("snap"):
            return res
    return None


def d_ip(ctx, args):
    """!ip <seed> <objects>: probes on the heap as the last snapshot shows it"""
    rnd = random.Random(int(args[0]) + len(ctx.pairs))
    nobj = int(args[1])
    snap = _last_snap(ctx)
    if snap is None:
        return
    sp = ctx.send("spaces") or ""
    spaces = []
    for e in (sp.split(" ", 1)[1].split(",") if " " in sp else []):
        f = e.split(":")
        spaces.append((f[0], int(f[1], 16), int(f[2], 16)))
    refoff = 8 if "refoff=8" in next((r for o, r in ctx.pairs if o == "constraints"), "refoff=8") else 0
    kv = dict(p.split("=", 1) for p in snap.split(" ")[1:] if "=" in p)
    objs = []
    for e in (kv.get("objs", "").split(";") if kv.get("objs") else []):
        f = e.split(":")
        objs.append((int(f[1], 16), int(f[2])))
    objs.sort()
    big = [o for o in objs if o[1] > 8192]
    pick = (objs if len(objs) <= nobj else rnd.sample(objs, nobj)) + big[:6]
    probes = []
    ns = lambda size: [1, 8, 9, size, 4096, 1 << 20]
    for ref, size in pick:
        start = ref - refoff
        cands = [start, ref - 8, ref, ref + 8, start + (size // 16) * 8, start + size - 8, start + size, ref + 3, start + size + 8]
        if size > 8192:
            cands += [ref + 4096, (ref & ~4095) + 4096, (ref & ~4095) + 4096 + 512, start + size - 4096, ref + 4088]
        for p in cands:
            for n in rnd.sample(ns(size), 2):
                probes.append((p, n))
    for (r1, s1), (r2, s2) in zip(objs, objs[1:]):            # gaps between neighbours
        end1 = r1 - refoff + s1
        if 16 <= (r2 - refoff) - end1 <= 1 << 16 and rnd.random() < 0.3:
            probes.append((end1 + 8, rnd.choice([8, 64, 4096, 1 << 20])))
            probes.append(((r2 - refoff) - 8, rnd.choice([8, 4096, 1 << 20])))
    for ref, size in pick[:10]:                                  # page / chunk edges around objects
        for base in (ref & ~4095, (ref & ~4095) + 4096, ref & ~(CHUNK - 1), (ref & ~(CHUNK - 1)) + CHUNK):
            for d in (-8, 0, 8):
                probes.append((base + d, rnd.choice([8, 4096, 1 << 20])))
    wild = [8, 16, 4096, (1 << 64) - 8, (1 << 64) - 4096, 0x3000_0000_0000, 0x3000_0000_0008, 0x3000_0040_0000, 0x2000_0000_0000 - 8,
            0x1000, 0x7fff_ffff_f000]
    for name, s0, ext in spaces:
        wild += [s0 - 8, s0, s0 + 8, s0 + ext - 8, s0 + ext, s0 + ext + 8, s0 + (1 << 41) - 8]
    for p in wild:
        probes.append((p, rnd.choice([1, 8, 4096, 1 << 20])))
    probes.append((0, 8))
    asked = {}
    for p, n in probes:
        if p < 0 or p >= 1 << 64:
            continue
        for c in {p // CHUNK, max(p - n, 0) // CHUNK, (max(p - n, 0) & ~4095) // CHUNK}:
            _ismapped(ctx, asked, c)
        if p and p % 8 == 0:
            ctx.send(f"ismo {p:#x}")
        ctx.send(f"findint {p:#x} {n}")
    stale_probes(ctx, rnd, asked, refoff, {r for r, _ in objs})


def _ismapped(ctx, asked, c):
    if c not in asked:
        r = ctx.send(f"ismapped {c * CHUNK:#x}")
        asked[c] = r == "true"
    return asked[c]


def _walk_known(ctx, asked, p, n, cap=48):
    """the page walk of the LOS lookup enters one mmap grain (4 MB chunk) after the other, downwards from p's, and stops
    at the first unmapped one or at align_down(p - n): ask `ismapped` for exactly those chunks (the monitor's model
    reads them). False when more than `cap` chunks would be needed (the probe is then not sent)."""
    c, low = p // CHUNK, (max(p - n, 0) & ~4095) // CHUNK
    k = 0
    while c >= low and k < cap:
        if not _ismapped(ctx, asked, c):
            return True
        c -= 1
        k += 1
    return c < low


def los_history(pairs):
    """every object ever allocated into a LargeObjectSpace: [(start, ref, size, id)] in address order"""
    out = {}
    for op, res in pairs:
        t = op.split()
        if t[0] in ("alloc", "alloco") and res.startswith("a="):
            kv = dict(x.split("=", 1) for x in res.split() if "=" in x)
            if kv.get("space", "").rstrip("0123456789") in LOS_NAMES:
                out[int(t[2])] = (int(kv["a"], 16), int(kv["r"], 16), int(kv["sz"]), int(t[2]))
    return sorted(out.values())


def stale_probes(ctx, rnd, asked, refoff, live_refs, others=3):
    """stale pointers: for large objects that have been swept — always the LOWEST-addressed one ever allocated, plus a
    few others — `findint <start + k> <n>` with k in {0, ref, middle, last word, next page} and n in {2^20, 2^28, 2^32,
    2^40, usize::MAX}; and addresses in the LOS above every live large object, same limits. With no valid object at
    or below the pointer the page walk runs down to the start of the space: it must stop at the first unmapped mmap
    grain and answer None (a process that dies here is `gc:findint-crash`)."""
    hist = los_history(ctx.pairs)
    if not hist:
        return
    dead = [h for h in hist if h[1] not in live_refs]
    probes = []
    ks = lambda start, ref, size: [0, ref - start, (size // 16) * 8, size - 8, (size + 4095) & ~4095]
    if dead and dead[0] == hist[0]:
        start, ref, size, _ = dead[0]
        probes += [(start + k, n) for k in ks(start, ref, size) for n in BIG_LIMITS]
    pool = dead[1:] if dead and dead[0] == hist[0] else dead
    for start, ref, size, _ in (pool if len(pool) <= others else rnd.sample(pool, others)):
        kk = ks(start, ref, size)
        probes += [(start + rnd.choice(kk), n) for n in BIG_LIMITS]
    live = [h for h in hist if h[1] in live_refs]
    top = max(h[0] + ((h[2] + 4095) & ~4095) for h in hist)           # above everything ever allocated
    above = [top, top + 8, (top & ~(CHUNK - 1)) + CHUNK - 8, (top & ~(CHUNK - 1)) + CHUNK]
    if live:
        s, r, z, _ = live[-1]
        above += [s + ((z + 4095) & ~4095), s + ((z + 4095) & ~4095) + 4096 + 8]
    for p in above:
        probes += [(p, n) for n in rnd.sample(BIG_LIMITS, 2)]
    for p, n in probes:
        if not _walk_known(ctx, asked, p, n):
            continue
        if ctx.send(f"findint {p:#x} {n}") is None:
            return


def d_rawprobe(ctx, args):
    """!rawprobe <size>: `rawalloc` (memory_manager::alloc without post_alloc) of a large object, then lookups into it:
    memory handed out, no VO bit yet — every answer must be None unless the pointer lies in a valid object"""
    size = int(args[0])
    res = ctx.send(f"rawalloc 0 {size} Los")
    if not res or not res.startswith("raw="):
        return
    a = int(res.split()[0][4:], 16)
    if not any(o == "spaces" for o, _ in ctx.pairs):
        ctx.send("spaces")
    asked = {}
    for k in (0, 8, (size // 16) * 8, size - 8, (size + 4095) & ~4095):
        for n in (8, 4096) + BIG_LIMITS:
            if _walk_known(ctx, asked, a + k, n) and ctx.send(f"findint {a + k:#x} {n}") is None:
                return


DIRECTIVES = {"ip": d_ip, "vo": C07.d_vo, "rawprobe": d_rawprobe}


def with_ip(ops, seed, nobj):
    out = []
    for op in ops:
        out.append(op)
        t = op.split()
        if t[0] == "gc" and t[2] == "1":
            out.append(f"!ip {seed} {nobj}")
    return out


def gen_objs(rnd, plan, info, heap, workers):
    """a heap with every size class (incl. multi-page LOS objects, immortal objects), holes after the GC"""
    g = G.Gen(rnd, plan, info, "fs_main", heap)
    g.anchor()
    for k in range(70):
        nf, size, align, offset, sem = G.rand_shape(g)
        if rnd.random() < 0.15:
            sem, size = "Los", rnd.choice([9000, 20000, 40000, 70000, 200000])
        x = g.alloc(0, nf, size, sem, slot=k % 40, align=align, offset=offset)
        if x is None:
            break
        if rnd.random() < 0.2:
            g.ops.append(f"vmroot {k} {x}")
    g.ops.append("gc 0 1")
    for s in range(0, 40, 3):
        g.root(0, s, None)
    for k in range(20):
        g.alloc(0, 1, rnd.choice([32, 200, 3000]), "Default", slot=45)
    g.ops.append("gc 0 1")
    return G.Program(plan, with_ip(G.normalize(g.ops), rnd.randrange(1 << 20), 25), heap=heap, workers=workers, tag="objs")


def gen_los_stale(rnd, plan, info, heap, workers):
    """large objects only: the first (= lowest-addressed) one dies first while higher ones live, then every one dies
    (no valid object left in the LOS), then the freed pages are reused; probes after every forced exhaustive GC"""
    g = G.Gen(rnd, plan, info, "fs_main", heap)
    g.anchor()
    # the very first large allocation of the space, between `alloc` and `post_alloc`: nothing valid at or below it
    g.ops.append(f"!rawprobe {rnd.choice([9000, 20000, 70000])}")
    sizes = [rnd.choice([9000, 12280, 20000, 40000, 70000, 200000]) for _ in range(rnd.randrange(4, 9))]
    xs = [g.alloc(0, rnd.choice([0, 1, 2]), sz, "Los", slot=k) for k, sz in enumerate(sizes)]
    g.ops.append(f"!rawprobe {rnd.choice([9000, 40000])}")          # above live large objects
    g.ops.append("gc 0 1")
    g.root(0, 0, None)                                   # the lowest large object dies
    if len(xs) > 3:
        g.root(0, rnd.randrange(1, len(xs) - 1), None)
    g.ops.append("gc 0 1")
    for k in range(len(xs)):
        g.root(0, k, None)                               # all of them die
    g.ops.append("gc 0 1")
    for k in range(rnd.randrange(1, 4)):                 # the pages are reused
        g.alloc(0, 1, rnd.choice([9000, 30000, 100000]), "Los", slot=20 + k)
    g.ops.append("gc 0 1")
    g.root(0, 20, None)
    g.ops.append("gc 0 1")
    return G.Program(plan, with_ip(G.normalize(g.ops), rnd.randrange(1 << 20), 12), heap=heap, workers=workers, tag="los-stale")


def make_suite(seed, tier):
    progs = []
    thorough = tier == "thorough"
    for plan in PLANS:
        info = G.plan_info(plan, "fs_main")
        if not info["vobit"]:
            continue
        for w in (1, 4):
            for rep in range(4 if thorough else 1):
                rnd = random.Random(f"{seed}/C08/{plan}/{w}/{rep}")
                heap = 64 * G.MB
                ps = [gen_objs(rnd, plan, info, heap, w)]
                if info["collects"] and "Los" in info["allocmap"]:
                    ps.append(gen_los_stale(random.Random(f"{seed}/C08/los/{plan}/{w}/{rep}"), plan, info, heap, w))
                if w == 1 or thorough:
                    mixed = G.gen_mixed(rnd, plan, info, "fs_main", heap, 200 if not thorough else 800, w)
                    mixed.ops = with_ip(mixed.ops, rnd.randrange(1 << 20), 12)
                    mixed.tag = "mixed+ip"
                    ps.append(mixed)
                progs += ps
    return progs


def _findint_statement(t, res, valid, exact):
    """the property: the answer is the valid object o with ref(o) <= p < start(o) + size(o) if its reference is less than n
    bytes below p, and None otherwise."""
    if not (t[1].startswith("0x") or t[1].isdigit()):
        return None
    p, n = int(t[1], 16) if t[1].startswith("0x") else int(t[1]), int(t[2])
    if res == "unsupported" or n == 0:
        return None
    if any(sp in ("los", "pageprotect") and (ref & ~4095) <= p < ref for ref, i, size, sp, start in valid):
        # known deviation (gc:findint-los-limit): the LOS also resolves a pointer between the start of the object's first
        # page (alignment padding, object start) and its reference
        return None
    inside = [(ref, i, size, sp) for ref, i, size, sp, start in valid if ref <= p < start + size]
    if inside:
        ref, i, size, sp = inside[0]
        if p - ref < n:
            want = str(i)
        elif sp in ("los", "pageprotect"):
            # known deviation gc:findint-los-limit: the LOS resolves it although the reference is >= n bytes below p
            return None
        else:
            want = "none"
        if res != want:
            return ("gc:findint-mismatch", f"p={p:#x} n={n}: answered {res}, the object containing p is id={i} (ref {ref:#x}, size {size}): expected {want}")
    elif exact and res != "none":
        return ("gc:findint-mismatch", f"p={p:#x} n={n}: answered {res}, no valid object contains p")
    return None


def oracle(trace):
    out = [v for v in C07.oracle(trace, findint=_findint_statement) if v[1] in KEYS]
    for idx, (op, res) in enumerate(trace.pairs):
        # a lookup is a query: whatever the address and the limit, it answers — a process that dies in it broke the property
        if op.startswith("findint ") and res.startswith("crash:"):
            out.append((idx, "gc:findint-crash", f"the process died in `{op}` ({res})"))
    return sorted(set(out))


def stats(traces):
    """evaluations = `findint` + `ismo` probes; non-trivial = a `findint` that resolved an interior pointer (p != the
    reference) to an object; distinct by (plan, answer class, limit)"""
    ev, nontriv, dist = 0, set(), {}
    bump = lambda k, n=1: dist.__setitem__(k, dist.get(k, 0) + n)
    for tr in traces:
        p = tr.program
        refs = {}
        hist = los_history(tr.pairs)
        lowest, insnap = (hist[0] if hist else None), {}
        for op, res in tr.pairs:
            t = op.split()
            if t[0] == "snap":
                insnap = {}
                G._note_refs(res, insnap)
                refs.update(insnap)
            elif t[0] == "findint":
                ev += 1
                bump("findint:" + ("object" if res not in ("none", "unsupported") and not res.startswith("panic") else res))
                bump(f"limit:{t[2]}" if int(t[2]) in (1, 8, 9, 4096) + BIG_LIMITS else "limit:size")
                if res.isdigit() and t[1].startswith("0x"):
                    a = int(t[1], 16)
                    if refs.get(int(res)) != a:
                        nontriv.add((p.plan, p.workers, res, t[2], a & 0xfff))
                elif res == "none" and int(t[2]) >= 1 << 28 and t[1].startswith("0x") and lowest is not None \
                        and lowest[0] <= int(t[1], 16) < lowest[0] + lowest[2] and lowest[3] not in insnap:
                    # the walk started inside the (dead) lowest large object: nothing below it, it ran to the space start
                    bump("stale:lowest-los-object-walk-to-space-start")
                    nontriv.add((p.plan, p.workers, "stale-lowest", t[2], (int(t[1], 16) - lowest[0]) & ~7))
            elif t[0] == "ismo":
                ev += 1
                bump("ismo:" + ("object" if res.isdigit() else res))
            elif t[0] == "ismapped":
                bump("ismapped:" + res)
            elif t[0] == "rawalloc":
                bump("rawalloc:" + ("ok" if res.startswith("raw=") else res.split()[0]))
    return ev, len(nontriv), dist


def _P(plan, ops, **kw):
    return G.Program(plan, W.ANCHOR + ops, heap=64 * G.MB, **kw)


CORPUS = [
    ("gc:findint-los-limit",
     _P("Immix", ["alloc 0 1 0 30000 8 0 Los 1", "ismapped 0x60000400000", "spaces", "findint @1+4088 8", "findint @1+8 1", "findint s@1 64"], tag="corpus"),
     "NEW (low severity): LargeObjectSpace::find_object_from_internal_pointer applies max_search_bytes to pages (low_page = align_down(ptr - max_search_bytes, 4096)) and never to the reference it finds: an interior pointer more than max_search_bytes above the reference is still resolved, and so is a pointer to the object start below the reference (VO-bit spaces answer None in both cases)"),
]
MALFORMED = ["gcw reset", "gcw res ok", "gcw op findint", "gcw res none", "gcw op findint 0x10 8", "gcw res 7", "gcw op findint zz 8", "gcw res none",
             "gcw op ismapped 0x400000", "gcw res maybe", "gcw op spaces", "gcw res spaces a:zz:1,b", "gcw op findint 0x20000000010 8", "gcw res 3",
             "gcw op ismo 0x18", "gcw res 9", "gcw op findint 0x60000400008 18446744073709551615", "gcw res crash:rc=-11", "gcw bogus"]


def los_limit_oracle(trace):
    """corpus: the literal statement on LOS objects (p - ref >= n must give None)"""
    out = []
    refs = {}
    for idx, (op, res) in enumerate(trace.pairs):
        t = op.split()
        if t[0] == "alloc" and res.startswith("a="):
            refs[int(t[2])] = int(re.search(r"\br=(0x[0-9a-f]+)", res).group(1), 16)
        elif t[0] == "findint" and res.isdigit():
            m = re.match(r"@(\d+)\+(\d+)", t[1])
            if m and int(m.group(2)) >= int(t[2]):
                out.append((idx, "gc:findint-los-limit", f"{op} -> {res}: the reference is {m.group(2)} >= {t[2]} bytes below the pointer"))
            elif t[1].startswith("s@"):
                out.append((idx, "gc:findint-los-limit", f"{op} -> {res}: the pointer is below the reference"))
    return out


def oracle_all(trace):
    return oracle(trace) + (los_limit_oracle(trace) if trace.program.tag == "corpus" else [])


def main(argv=None):
    return W.run_check("C08", argv, ["MmtkModel.Props.C08"], THEOREMS, KEYS, make_suite, oracle_all, CORPUS, stats,
                       rule="one evaluation = one `findint` / `ismo` probe compared with the model (Lean monitor) and with the property statement (oracle); non-trivial = a `findint` that resolved a pointer other than the object's reference to that object, or a stale pointer into the swept lowest large object with a limit >= 2^28 (the walk runs to the start of the space) answered None; distinct by (plan, workers, object, limit, page offset)",
                       assumptions=["probes are sent right after a forced exhaustive GC + snapshot: the valid objects are the snapshot's objects plus the never-collected ones (no finalizers / soft references in these programs)",
                                    "`is_mmtk_object` precondition: addr != 0 and word-aligned (other addresses go to `findint` only)",
                                    "debug build: `find_prev_non_zero_value` asserts fast == simple, so the simple (reference) loop is what is modelled; max_search_bytes > 0",
                                    "Map64 layout: one SFT per 2^41-byte slot (space names from `spaces`), mmapper granularity 4 MB (chunk states from `ismapped`, asked for every grain a walk enters; a grain is mapped as a whole)",
                                    "a `findint` that kills the process (SIGSEGV / abort) is reported as gc:findint-crash, any other dead process as gc:crash"],
                       directives=DIRECTIVES, malformed=MALFORMED)
