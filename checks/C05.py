"""C05 — generational remembered sets are sound (GenCopy, GenImmix, StickyImmix): real nursery collections
under the snapshot monitor + the executable remembered-set model `Mmtk.Gen.apply` on the unlog bit."""
import random
from checks import gcweak_common as W
from vlib import gcrun as G

PLANS = ["GenCopy", "GenImmix", "StickyImmix"]
THEOREMS = ["Mmtk.Gen.apply_inv", "Mmtk.Gen.nursery_sound", "Mmtk.Gen.nursery_reach_preserved", "Mmtk.Gen.nursery_inv",
            "Mmtk.Gen.history_inv", "Mmtk.Gen.empty_inv", "Mmtk.WeakMon.promote_nurseryGC", "Mmtk.WeakMon.promote_inv"]
C01_KEYS = ("gc:dup-id", "gc:extra-object", "gc:lost-object", "gc:size-mismatch", "gc:payload", "gc:field-mismatch",
            "gc:root-mismatch")
KEYS = C01_KEYS + ("gc:unlogged-mismatch",)
META = {
    "text": "Remembered-set model (Model/Gen.lean: unlog bit, mod-buffer, region mod-buffer, barriered write / region copy, nursery collection as a declarative relation): the invariant `every old->young slot is remembered` is preserved by every legal mutator operation and every nursery collection over histories of any length (`apply_inv`, `nursery_inv`, `history_inv`), and under it a nursery collection keeps every object reachable in the whole heap with its fields (`nursery_sound`, `nursery_reach_preserved`); the monitor's executable collection step `promote` is a `NurseryGC` (`promote_nurseryGC`). Real collections: programs biased to old->young stores (write barrier and memory_region_copy into old arrays, young objects and young chains reachable ONLY through a field of an old Default / Los / Immortal object, overwritten and re-stored references, two mutators, nursery GCs `gc m 0`, full GCs) run on hx_gc for GenCopy, GenImmix, StickyImmix x {1,4} workers; after every pause the real heap is compared with the shadow heap (C01's comparison), and after every mutator operation hx_gc's GLOBAL_LOG_BIT_SPEC.is_unlogged of the touched objects is compared with `Mmtk.Gen.apply`'s `unlogged`; an independent Python oracle re-evaluates both.",
    "note": "Level: proof of the model, partial w.r.t. the code (real nursery collections are sampled). NonMoving objects are kept out of the generational programs (known defect F-B gc:nonmoving-gen-lost, reported by C01's corpus).",
    "technique": "Lean 4 proof (invariant over all histories) + run-time verification of real nursery GCs by the snapshot monitor and the executable barrier model + independent oracle",
    "category": "proof",
}


def add_probes(ops, info):
    """insert `unlogged <id>` after every alloc / write / copyrange for the touched objects that are reachable
    (known to hx_gc) at that point; ids are final (run after normalize)"""
    sh, out = G.Shadow(), []
    for op in ops:
        t = op.split()
        k = t[0]
        if k == "write" and int(t[2]) in sh.objs and int(t[2]) in sh.reach():
            out.append(f"unlogged {t[2]}")          # before the barrier runs
        out.append(op)
        try:
            if k == "alloc":
                sh.apply(t, 0)
                out.append(f"unlogged {t[2]}")
            elif k in ("root", "vmroot", "destroy", "mkref"):
                sh.apply(t)
            elif k == "write":
                sh.apply(t)
                for i in {t[2]} | ({t[4]} if t[4] != "null" else set()):
                    if int(i) in sh.reach():
                        out.append(f"unlogged {i}")
            elif k == "copyrange":
                sh.apply(t)
                for i in {t[2], t[4]}:
                    if int(i) in sh.reach():
                        out.append(f"unlogged {i}")
        except (KeyError, IndexError, ValueError):
            pass
    return out


def gen_remset(rnd, plan, info, heap, workers, rounds=6):
    """old holders (Default arrays, a Los array, an Immortal holder), then rounds of: allocate young objects /
    young chains, store them ONLY into old objects (write or copyrange through a young staging array), drop
    their roots, nursery GC. Every round also overwrites some old slots and probes unlog bits."""
    g = G.Gen(rnd, plan, info, "fs_main", heap, mutators=(0, 1))
    r = rnd
    g.anchor()
    holders = []
    for k in range(r.randrange(3, 7)):
        sem = r.choice(["Default", "Default", "Default", "Los", "Immortal"])
        nf = r.choice([2, 4, 8, 16, 64])
        size = r.choice([64, 256, 1024]) if sem != "Los" else r.choice([20000, 40000])
        h = g.alloc(0, nf, size + 8 * nf, sem, slot=k)
        holders.append(h)
        g.ops.append(f"vmroot {k} {h}")
        g.root(0, k, None)
    g.gc(0, r.random() < 0.5)                 # the holders become old
    for rd in range(rounds):
        m = r.choice([0, 1])
        newy = []
        # a third of the rounds: the mutator's ONLY old->young stores of the epoch go through the array-copy barrier (its
        # object mod-buffer stays empty, its region mod-buffer does not) — the two buffers are flushed independently
        region_only = r.random() < 0.34
        for _ in range(r.randrange(2, 9) if not region_only else r.randrange(1, 4)):
            u = r.random() if not region_only else 0.75
            h = r.choice(holders)
            f = r.randrange(g.nf[h])
            if u < 0.5:                       # one young object, reachable only through h.f
                y = g.alloc(m, r.choice([0, 1, 2, 4]), r.choice([32, 64, 200, 1024, 4000]), "Default", slot=40)
                g.write(h, f, y, m)
                g.root(m, 40, None)
                newy.append(y)
            elif u < 0.7:                     # a young chain y1 -> y2 -> y3, only y1 stored into the old object
                prev = None
                for _ in range(r.randrange(2, 6)):
                    y = g.alloc(m, 2, r.choice([40, 64, 520]), r.choice(["Default", "Default", "Los"]) if r.random() < 0.2 else "Default", slot=41)
                    if prev is not None:
                        g.write(y, 0, prev, m)
                    prev = y
                    newy.append(y)
                g.write(h, f, prev, m)
                g.root(m, 41, None)
            elif u < 0.85:                    # copyrange from a young staging array into the old array
                k = r.randrange(1, min(g.nf[h], 6) + 1)
                st = g.alloc(m, k, 64 + 8 * k, "Default", slot=42)
                for j in range(k):
                    y = g.alloc(m, 1, r.choice([32, 64, 300]), "Default", slot=43)
                    g.write(st, j, y, m)
                    newy.append(y)
                g.ops.append(f"copyrange {m} {st} 0 {h} {r.randrange(0, g.nf[h] - k + 1)} {k}")
                g.root(m, 42, None); g.root(m, 43, None)
            elif u < 0.93 and newy:            # store a young object into a second old object, clear the first slot
                y = r.choice(newy)
                h2 = r.choice(holders)
                g.write(h2, r.randrange(g.nf[h2]), y, m)
            else:                             # overwrite an old slot (may drop a young object)
                g.write(h, f, None, m)
        if r.random() < 0.3:
            g.ops.append("flush 0")
        g.gc(m, exhaustive=(r.random() < 0.15))   # mostly nursery collections
        if r.random() < 0.5:                  # a survivor of this round becomes a holder of the next
            cand = [y for y in newy if g.nf[y]]
            if cand:
                holders.append(r.choice(cand))
    g.ops += ["gc 0 1", "snap"]
    return G.Program(plan, add_probes(G.normalize(g.ops, (0, 1)), info), heap=heap, workers=workers, tag="remset", mutators=(0, 1))


def make_suite(seed, tier):
    progs = []
    thorough = tier == "thorough"
    for plan in PLANS:
        info = G.plan_info(plan, "fs_main")
        for w in (1, 4):
            for rep in range(6 if thorough else 1):
                rnd = random.Random(f"{seed}/C05/{plan}/{w}/{rep}")
                ys = rnd.randrange(1, 1 << 30) if thorough else 0
                heap = rnd.choice([32, 64]) * G.MB
                ps = [gen_remset(rnd, plan, info, heap, w, rounds=6 if not thorough else 20),
                      gen_remset(rnd, plan, info, heap, w, rounds=3)]
                mixed = G.gen_mixed(rnd, plan, info, "fs_main", heap, 300 if not thorough else 1500, w)
                mixed.ops = add_probes([o for o in mixed.ops if not o.startswith("pin") and not o.startswith("unpin")], info)
                mixed.tag = "mixed+probes"
                ps.append(mixed)
                for p in ps:
                    p.yield_seed = ys
                progs += ps
    return progs


def oracle(trace):
    """independent re-statement: (a) C01's snapshot comparison, (b) the unlog bit = `born mature or survived a
    collection, and not written since`."""
    out = list(G.oracle_c01(trace))
    unl, gcs = {}, 0
    for idx, (op, res) in enumerate(trace.pairs):
        t, r = op.split(), res.split()
        if not r:
            continue
        m = G._GCS.search(res)
        if m and int(m.group(1)) != gcs:
            gcs = int(m.group(1))
            unl = {i: True for i in unl}
        if t[0] == "alloc" and r[0].startswith("a="):
            kv = dict(x.split("=", 1) for x in r if "=" in x)
            unl[int(t[2])] = kv["space"].rstrip("0123456789") not in ("nursery", "immix", "copyspace", "los")
        elif t[0] == "write" and r[0] == "ok":
            unl[int(t[2])] = False
        elif t[0] == "unlogged" and r[0] in ("true", "false"):
            if (r[0] == "true") != unl.get(int(t[1])):
                out.append((idx, "gc:unlogged-mismatch", f"id={t[1]} is_unlogged={r[0]} expected={unl.get(int(t[1]))}"))
    return sorted(out)


def stats(traces):
    """evaluations = unlog-bit probes + snapshots after a pause; non-trivial = a nursery GC (`gc m 0`) at which >= 1 young
    object was reachable ONLY through a field of an older object, distinct by (plan, workers, kind, pause, count)"""
    ev, nontriv, dist = 0, set(), {}
    bump = lambda k, n=1: dist.__setitem__(k, dist.get(k, 0) + n)
    for tr in traces:
        p = tr.program
        sh, born, gcs = G.Shadow(), {}, 0
        for op, res in tr.pairs:
            t, r = op.split(), res.split()
            if not r:
                continue
            if t[0] == "gc" and r[0] == "ok":
                young = {i for i, b in born.items() if b == gcs}
                direct, stack = set(), [v for v in sh.roots.values()]
                while stack:
                    x = stack.pop()
                    if x in direct:
                        continue
                    direct.add(x)
                    if x in young:
                        o = sh.objs[x]
                        stack += [f for j, f in enumerate(o["fields"]) if f is not None and not (o["weak"] and j == 0)]
                dep = (sh.reach() & young) - direct
                bump("gc:nursery" if t[2] == "0" else "gc:full")
                bump("young_reachable_only_through_old", len(dep))
                if dep and t[2] == "0":
                    nontriv.add((p.plan, p.workers, p.tag, gcs, len(dep)))
            m = G._GCS.search(res)
            if m and int(m.group(1)) != gcs:
                gcs = int(m.group(1))
            if t[0] == "alloc" and r[0].startswith("a="):
                kv = dict(x.split("=", 1) for x in r if "=" in x)
                sh.apply(t, int(kv["sz"]))
                if kv["space"] != "immortal":
                    born[int(t[2])] = gcs
                bump(f"sem:{t[7]}")
            elif t[0] in ("root", "vmroot", "write", "copyrange", "destroy", "mkref") and r[0] == "ok":
                sh.apply(t)
                if t[0] in ("write", "copyrange"):
                    bump(t[0])
            elif t[0] == "unlogged":
                ev += 1
                bump(f"unlogged:{r[0]}")
            elif t[0] == "snap" and r[0] == "snap":
                ev += 1
                bump("snapshots")
    return ev, len(nontriv), dist


CORPUS = []
MALFORMED = ["gcw reset", "gcw res ok", "gcw op", "gcw op unlogged", "gcw res true", "gcw op unlogged 7", "gcw res maybe",
             "gcw op constraints", "gcw res constraints generational=1 concurrent=0 refoff=8",
             "gcw op alloc 0 0 1 8 8 0 Default 0", "gcw res a=0x20000000008 r=0x20000000010 sz=48 space=nursery zero=1 inmmtk=1 gcs=0",
             "gcw op unlogged 0", "gcw res true", "gcw op write 0 0 5 3", "gcw res ok", "gcw op copyrange 0 0 0 0 0 9", "gcw res ok",
             "gcw op snap", "gcw res snap gcs=0 roots=0.0:0| objs=0:10:48:D:1:-;0:18:48:D:1:-", "gcw bogus"]


def main(argv=None):
    return W.run_check("C05", argv, ["MmtkModel.Props.C05", "MmtkModel.Props.C05Mon"], THEOREMS, KEYS, make_suite, oracle, CORPUS, stats,
                       rule="one evaluation = one `unlogged <id>` probe (compared with Mmtk.Gen.apply's unlog bit) or one snapshot after a pause (compared with the shadow heap); non-trivial = a nursery GC at which >= 1 young object was reachable only through a field of an older object (it must be in the next snapshot with its fields); distinct by (plan, workers, kind, pause, count)",
                       assumptions=["`gc m 0` on a generational plan with a roomy heap is a nursery collection (`gc m 1` forces a full-heap one)",
                                    "objects are born young in the nursery / the StickyImmix Immix space / the LOS, born mature in immortal spaces (read from the `space=` of the alloc result)",
                                    "NonMoving objects are kept out (known defect F-B, reported by C01)",
                                    "the VerifVM binding reports roots and scans objects as documented in harness/HX_GC.md"],
                       malformed=MALFORMED)
