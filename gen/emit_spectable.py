"""Translator back end for C24: JSON dumps of hx_consts → lean/MmtkModel/Generated/SpecTable.lean.

A configuration = (feature set, plan, VM placement). Its active specs = the core specs some space of the
plan uses (from the live plan) ∪ the VM specs the plan uses that the placement puts on the side (offsets
from the real side_first/side_after). Rows are de-duplicated; each row lists its specs sorted by offset."""
import json

VM_PREFIX = "VM"


def align_up(x, a):
    return (x + a - 1) // a * a


def rsize(lb, lr):
    return 1 << (47 - (3 + lr - lb))


def build_rows(dumps, placements, core, reserved_by_placement=None):
    """dumps: {fs: [plan dump dict]}; placements / core / reserved_by_placement: either one value for all feature
    sets or a dict {fs: value} (the VM placements, the core chain and the reserved size are constants of the LINKED crate:
    `immix_smaller_block` etc. shift the whole local chain, so they must come from the same binary as the dump)."""
    def per(x, fs):
        return x[fs] if isinstance(x, dict) and fs in x else x
    rows, configs, core_end_max = {}, [], 0
    for fs, plans in dumps.items():
        core_fs, placements_fs, reserved_fs = per(core, fs), per(placements, fs), per(reserved_by_placement, fs)
        core_end = max(s["offset"] + rsize(s["log_bits"], s["log_region"]) for s in core_fs if not s["global"])
        core_end_max = max(core_end_max, core_end)
        for d in plans:
            used = {}
            for sp in d["spaces"]:
                for s in sp["global"] + sp["local"]:
                    used[s["name"]] = s
            core_used = [s for n, s in used.items() if not n.startswith(VM_PREFIX)]
            vm_used = {n for n in used if n.startswith(VM_PREFIX)}
            gran = d["granularity"]
            for pi, p in enumerate(placements_fs):
                vm_all = p["global"] + p["local"]
                vm_end = max([s["offset"] + rsize(s["log_bits"], s["log_region"]) for s in vm_all] + [0])
                # the reserved size the REAL start-up code computes for this placement (hx_consts vmreserved);
                # the closed formula is only the fallback
                reserved = (reserved_fs or {}).get(pi, align_up(max(core_end, vm_end), gran))
                # which VM spec kinds does the plan use? (names are the spec type names)
                active_vm = [s for s in vm_all if s["name"] in vm_used or s["name"] == "VMGlobalLogBitSpec" and "VMGlobalLogBitSpec" in vm_used]
                specs = sorted(core_used + active_vm, key=lambda s: (s["offset"], s["name"]))
                key = (reserved, tuple((s["name"], s["global"], s["offset"], s["log_bits"], s["log_region"]) for s in specs))
                rows.setdefault(key, []).append((fs, d["plan"], pi))
                configs.append((fs, d["plan"], pi))
    return rows, configs, core_end_max


def find_violations(rows):
    """Independent search for a concrete aliasing configuration (used when the Lean obligation fails)."""
    bad = []
    for (reserved, specs), cfgs in rows.items():
        for i, a in enumerate(specs):
            ea = a[2] + rsize(a[3], a[4])
            if ea > reserved:
                bad.append(("outside-reserved", a, None, reserved, cfgs[:5]))
            for b in specs[i + 1:]:
                eb = b[2] + rsize(b[3], b[4])
                if a[2] < eb and b[2] < ea:
                    bad.append(("overlap", a, b, reserved, cfgs[:5]))
    return bad


def emit(rows, names, path, chunk=100):
    """The table is emitted in chunks of `chunk` rows (one `def` + one `decide +kernel` obligation each): a single list
    literal of ~2000 rows (thorough tier: six feature sets) exceeds Lean's elaboration recursion depth."""
    ids = {n: i for i, n in enumerate(sorted(names))}
    out = ["import MmtkModel.Model.Layout",
           "/-! GENERATED on every run by gen/emit_spectable.py from `hx_consts` (the linked mmtk-core). Do not edit. -/",
           "namespace Mmtk.Generated.SpecTable", "open Mmtk.Layout", "",
           "/-- spec names (index = `Spec.name`) -/",
           "def specNames : List String := [" + ", ".join(f'"{n}"' for n in sorted(names)) + "]", ""]
    lines = []
    for (reserved, specs), cfgs in sorted(rows.items()):
        ss = ", ".join(f"⟨{ids[n]}, {'true' if g else 'false'}, {o}, {lb}, {lr}⟩" for n, g, o, lb, lr in specs)
        lines.append(f"  ⟨{reserved}, [{ss}]⟩  -- {len(cfgs)} configuration(s), e.g. {cfgs[0][0]}/{cfgs[0][1]}/placement#{cfgs[0][2]}")
    chunks = [lines[i:i + chunk] for i in range(0, len(lines), chunk)] or [[]]
    for k, ch in enumerate(chunks):
        out.append(f"def rows{k} : List Row := [")
        # Lean list separators must precede comments: put the comma at the start of following lines
        for i, l in enumerate(ch):
            code, _, comment = l.partition("  -- ")
            out.append(("  " if i == 0 else "  , ") + code.strip() + "  -- " + comment)
        out += ["  ]", "", f"theorem rows{k}_ok : rows{k}.all rowOk = true := by decide +kernel", ""]
    expr = f"rows{len(chunks) - 1}"
    for k in range(len(chunks) - 2, -1, -1):
        expr = f"rows{k} ++ ({expr})"
    oks = ", ".join(f"rows{k}_ok" for k in range(len(chunks)))
    out += [f"def rows : List Row := {expr}", "",
            "theorem all_rows_ok : rows.all rowOk = true := by",
            f"  simp [rows, List.all_append, {oks}]", "",
            "theorem rows_nonempty : rows ≠ [] := by",
            "  have h0 : rows0 ≠ [] := by simp [rows0]",
            ("  simpa [rows] using h0" if len(chunks) == 1 else "  exact List.append_ne_nil_of_left_ne_nil h0 _"), "",
            "end Mmtk.Generated.SpecTable", ""]
    open(path, "w").write("\n".join(out))
