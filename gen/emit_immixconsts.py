"""Regenerate lean/MmtkModel/Generated/ImmixConsts.lean from `hx_consts immix` (JSON line)."""
import json, os

TEMPLATE = '''/-! GENERATED on every run of `./check C34` by gen/emit_immixconsts.py from `hx_consts immix`
(the linked mmtk-core). Do not edit. -/
namespace Mmtk.Immix.Consts

/-- `Line::LOG_BYTES` -/
def lineLogBytes : Nat := {line_log_bytes}
/-- `Block::LOG_BYTES` -/
def blockLogBytes : Nat := {block_log_bytes}
/-- `Block::LINES` -/
def blockLines : Nat := {block_lines}
/-- `Block::PAGES` -/
def blockPages : Nat := {block_pages}
/-- `Line::RESET_MARK_STATE` -/
def resetMarkState : Nat := {reset_mark_state}
/-- `Line::MAX_MARK_STATE` -/
def maxMarkState : Nat := {max_mark_state}
/-- `u8::from(BlockState::Unallocated)` -/
def markUnallocated : Nat := {mark_unallocated}
/-- `u8::from(BlockState::Unmarked)` -/
def markUnmarked : Nat := {mark_unmarked}
/-- `u8::from(BlockState::Marked)` -/
def markMarked : Nat := {mark_marked}
/-- `policy::immix::BLOCK_ONLY` -/
def blockOnly : Bool := {block_only}
/-- `policy::immix::MAX_IMMIX_OBJECT_SIZE` -/
def maxObjectSize : Nat := {max_object_size}

end Mmtk.Immix.Consts
'''


def emit(consts, path):
    d = dict(consts)
    d["block_only"] = "true" if d["block_only"] else "false"
    text = TEMPLATE.format(**d)
    old = open(path).read() if os.path.exists(path) else None
    if old != text:
        open(path, "w").write(text)
    return old != text
