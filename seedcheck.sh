#!/bin/bash
# seedcheck.sh <property id> [check id ...]: confirm a seeded change (in /var/tmp/seed_<id>/) and run
# the registered checks against it. Results in /verif/seeded/<id>/.
# (development tool: not referenced by MANIFEST.json)
set -u
ID=$1; shift; CHECKS=${@:-$ID}
S=/var/tmp/seed_$ID; OUT=/verif/seeded/$ID
mkdir -p $OUT; cp -r $S/out/* $OUT/ 2>/dev/null
LOG=$OUT/confirm.log; : > $LOG
cd /repo || exit 1
if [ -n "$(git status --porcelain)" ]; then echo "/repo not clean" | tee -a $LOG; exit 1; fi
echo "== applying patch to /repo" >> $LOG
if ! git apply --check $OUT/patch.diff 2>>$LOG; then echo "PATCH DOES NOT APPLY to /repo main" | tee -a $LOG; exit 1; fi
git apply $OUT/patch.diff
echo "== baseline test suite with the patch (guard off)" >> $LOG
(cargo test --workspace --no-fail-fast --offline 2>&1 | grep -E "^test result|FAILED|failed" ) >> $LOG 2>&1
for c in $CHECKS; do
  echo "== ./check $c (quick) with the patch" >> $LOG
  (cd /verif && ./check $c --tier quick 2>&1 | grep -E "VIOLATION|->|^C[0-9]+:|KNOWN" | cut -c1-600) >> $LOG 2>&1
done
git checkout -- . ; git status --porcelain >> $LOG
rm -rf /verif/out/replay
# the evidence files written by the runs above describe the PATCHED tree: restore the committed ones
git -C /verif checkout -- evidence/ 2>/dev/null
echo "== done" >> $LOG
cat $LOG
