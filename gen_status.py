#!/usr/bin/env python3
"""Rewrite the per-property status table of DESIGN.md (§10.7) from MANIFEST.json, evidence/*.json and
known_findings.json (development helper; run after ./gen_manifest.py and a full quick run)."""
import json, os, re
os.chdir(os.path.dirname(os.path.abspath(__file__)))
props = {json.loads(l)["id"]: json.loads(l) for l in open("properties.jsonl")}
man = json.load(open("MANIFEST.json"))
kf = json.load(open("known_findings.json"))["findings"]
rows = ["| id | property (title) | theorems audited | tie to the code (technique) | quick run: evaluations / distinct non-trivial | defects: fixed / known |",
        "|---|---|---|---|---|---|"]
for c in man["checks"]:
    pid = c["property_id"]
    ev = {}
    if os.path.exists(f"evidence/{pid}.json"):
        ev = json.load(open(f"evidence/{pid}.json"))
    cov = ev.get("coverage", {})
    fixed = sum(1 for f in kf if f["property"] == pid and f["kind"] == "fixed")
    known = sum(1 for f in kf if f["property"] == pid and f["kind"] == "finding")
    tech = c["technique"].replace("|", "/")
    rows.append(f"| {pid} | {props[pid]['title']} | {cov.get('discharged', '?')}/{cov.get('obligations', '?')} | {tech} | "
                f"{cov.get('evaluations', '?')} / {cov.get('distinct_nontrivial', '?')} | {fixed} / {known} |")
na = man.get("not_applicable", [])
txt = "\n".join(rows) + "\n\n" + (f"not_applicable: {', '.join(x['property_id'] for x in na)}" if na else "not_applicable: none — all 40 properties are claimed.") + "\n"
# ---- seeded-change table (§10.5) from seeded/*/meta.json
import glob
srows = ["| id | seeded change (tester's summary, abridged) | verdict | how (abridged; full text in seeded/<id>/meta.json) |", "|---|---|---|---|"]
n = caught_first = caught_after = missed = 0
def ab(t, k):
    t = " ".join(str(t).split()).replace("|", "/")
    return t if len(t) <= k else t[:k - 1] + "…"
for f in sorted(glob.glob("seeded/C*/meta.json")):
    m = json.load(open(f))
    sid = f.split("/")[1]
    how = m.get("how_caught", "")
    c = m.get("caught")
    first_missed = "MISSED" in how.upper()[:40] or how.lower().startswith("first")
    if c and not first_missed:
        verdict = "caught"; caught_first += 1
    elif c:
        verdict = "caught after strengthening"; caught_after += 1
    else:
        verdict = "**missed** (strengthening in progress)"; missed += 1
    n += 1
    srows.append(f"| {sid} | {ab(m.get('summary', ''), 230)} | {verdict} | {ab(how, 330)} |")
stxt = "\n".join(srows) + f"\n\nScore: {n} seeded changes confirmed by the lead; {caught_first} caught by the checks as they stood, {caught_after} caught after the check was strengthened (the first run either missed them or reported only a broken correspondence without a failing input), {missed} still missed.\n"
s = open("DESIGN.md").read()
sb, se = "<!-- SEEDED-BEGIN -->", "<!-- SEEDED-END -->"
if sb in s:
    s = s[:s.index(sb) + len(sb)] + "\n" + stxt + s[s.index(se):]
    open("DESIGN.md", "w").write(s)
    print("seeded table rewritten:", n, "rows")
s = open("DESIGN.md").read()
b, e = "<!-- STATUS-BEGIN -->", "<!-- STATUS-END -->"
if b in s:
    s = s[:s.index(b) + len(b)] + "\n" + txt + s[s.index(e):]
    open("DESIGN.md", "w").write(s)
    print("status table rewritten:", len(rows) - 2, "rows")
else:
    print("markers not found")
